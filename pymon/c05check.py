"""C05 oracle: lock-step comparison of the outcome logs written by the default,
no-fastpath and counters+pre-eval builds for the same deterministic workload."""
import json, os, sys
from pymon.pycheck import Checker


def main():
    c = Checker("C05")
    base = c.args.log  # .../rel-shardN.jsonl
    logs = {"default": base, "no-fastpath": base.replace("/rel-shard", "/nofast-shard"), "counters+pre-eval": base.replace("/rel-shard", "/diag-shard")}
    for name, p in logs.items():
        if not os.path.exists(p):
            print(f"INCONCLUSIVE missing log of the {name} build: {p}")
            return 3
    fhs = {k: open(p) for k, p in logs.items()}
    while True:
        lines = {k: fh.readline() for k, fh in fhs.items()}
        if all(l == "" for l in lines.values()):
            break
        if any(l == "" for l in lines.values()):
            # the time budget may cut the random part at different places: compare the common prefix only
            c.count("logs_of_different_length")
            break
        recs = {k: json.loads(l) for k, l in lines.items()}
        r0 = recs["default"]
        keys = {k: (r["case"], r["kind"], r["key"]) for k, r in recs.items()}
        if len(set(keys.values())) != 1:
            c.count("lockstep_lost")
            print("INCONCLUSIVE logs are not in lock-step (generators diverged):", keys)
            return 3
        c.evaluations += 1
        c.count("kind_" + r0["kind"])
        res = {k: r["res"] for k, r in recs.items()}
        if r0["res"].get("ok"):
            c.nontrivial(r0["key"])
            if len(c.samples) < 4:
                c.sample({k: r0.get(k) for k in ("kind", "op", "args", "program", "env", "flags", "budget", "res") if k in r0})
        if not (res["default"] == res["no-fastpath"] == res["counters+pre-eval"]):
            which = "no-fastpath" if res["default"] != res["no-fastpath"] else "counters+pre-eval"
            c.violation(f"build-variant-changes-outcome/{which}", r0, {"outcomes": res, "op": r0.get("op"), "args": r0.get("args"),
                                                                         "program": r0.get("program"), "env": r0.get("env"), "flags": r0["flags"], "budget": r0["budget"]})
    return c.finish()


if __name__ == "__main__":
    sys.exit(main())
