"""ECDSA verification over secp256k1 and secp256r1 in pure python (SEC1 key
parsing, raw 64-byte r||s signatures, 32-byte prehash), with an optional
cross-check against the system OpenSSL."""
import os, subprocess, tempfile


class Curve:
    def __init__(self, name, p, a, b, gx, gy, n, oid):
        self.name, self.p, self.a, self.b, self.g, self.n, self.oid = name, p, a, b, (gx, gy), n, oid

    def on_curve(self, pt):
        x, y = pt
        return (y * y - (x * x * x + self.a * x + self.b)) % self.p == 0

    def add(self, p1, p2):
        if p1 is None:
            return p2
        if p2 is None:
            return p1
        p = self.p
        x1, y1 = p1
        x2, y2 = p2
        if x1 == x2:
            if (y1 + y2) % p == 0:
                return None
            m = (3 * x1 * x1 + self.a) * pow(2 * y1, p - 2, p) % p
        else:
            m = (y2 - y1) * pow(x2 - x1, p - 2, p) % p
        x3 = (m * m - x1 - x2) % p
        return (x3, (m * (x1 - x3) - y1) % p)

    def mul(self, pt, k):
        r = None
        while k:
            if k & 1:
                r = self.add(r, pt)
            pt = self.add(pt, pt)
            k >>= 1
        return r

    def parse_sec1(self, b: bytes):
        """SEC1 2.3.4: 02/03 compressed, 04 uncompressed; identity and anything else rejected"""
        p = self.p
        if len(b) == 33 and b[0] in (2, 3):
            x = int.from_bytes(b[1:], "big")
            if x >= p:
                raise ValueError("x out of range")
            y2 = (x * x * x + self.a * x + self.b) % p
            y = pow(y2, (p + 1) // 4, p)  # both primes are 3 mod 4
            if y * y % p != y2:
                raise ValueError("not on curve")
            if y & 1 != b[0] & 1:
                y = p - y
            return (x, y)
        if len(b) == 65 and b[0] == 4:
            x = int.from_bytes(b[1:33], "big")
            y = int.from_bytes(b[33:], "big")
            if x >= p or y >= p or not self.on_curve((x, y)):
                raise ValueError("not on curve")
            return (x, y)
        raise ValueError("unsupported encoding")

    def verify(self, pub, msg32: bytes, sig64: bytes, require_low_s=False):
        if len(sig64) != 64:
            raise ValueError("signature length")
        r = int.from_bytes(sig64[:32], "big")
        s = int.from_bytes(sig64[32:], "big")
        n = self.n
        if not (1 <= r < n and 1 <= s < n):
            raise ValueError("r/s out of range")
        if require_low_s and s > n // 2:
            return False
        e = int.from_bytes(msg32, "big") % n
        w = pow(s, n - 2, n)
        pt = self.add(self.mul(self.g, e * w % n), self.mul(pub, r * w % n))
        return pt is not None and pt[0] % n == r


K1 = Curve("secp256k1", 2**256 - 2**32 - 977, 0, 7,
           0x79BE667EF9DCBBAC55A06295CE870B07029BFCDB2DCE28D959F2815B16F81798, 0x483ADA7726A3C4655DA4FBFC0E1108A8FD17B448A68554199C47D08FFB10D4B8,
           0xFFFFFFFFFFFFFFFFFFFFFFFFFFFFFFFEBAAEDCE6AF48A03BBFD25E8CD0364141, bytes.fromhex("2b8104000a"))
R1 = Curve("prime256v1", 2**256 - 2**224 + 2**192 + 2**96 - 1, -3, 0x5AC635D8AA3A93E7B3EBBD55769886BC651D06B0CC53B0F63BCE3C3E27D2604B,
           0x6B17D1F2E12C4247F8BCE6E563A440F277037D812DEB33A0F4A13945D898C296, 0x4FE342E2FE1A7F9B8EE7EB4A7C0F9E162BCE33576B315ECECBB6406837BF51F5,
           0xFFFFFFFF00000000FFFFFFFFFFFFFFFFBCE6FAADA7179E84F3B9CAC2FC632551, bytes.fromhex("2a8648ce3d030107"))


def _der_len(n):
    return bytes([n]) if n < 128 else bytes([0x81, n])


def _der_int(v):
    b = v.to_bytes((v.bit_length() + 8) // 8, "big")
    return b"\x02" + _der_len(len(b)) + b


def openssl_verify(curve, pub, msg32, sig64):
    """independent check through the system OpenSSL; returns True/False or None if unavailable"""
    try:
        x, y = pub
        point = b"\x04" + x.to_bytes(32, "big") + y.to_bytes(32, "big")
        alg = b"\x30" + _der_len(9 + 2 + len(curve.oid)) + b"\x06\x07\x2a\x86\x48\xce\x3d\x02\x01" + b"\x06" + _der_len(len(curve.oid)) + curve.oid
        bitstr = b"\x03" + _der_len(len(point) + 1) + b"\x00" + point
        spki = b"\x30" + _der_len(len(alg) + len(bitstr)) + alg + bitstr
        r = int.from_bytes(sig64[:32], "big")
        s = int.from_bytes(sig64[32:], "big")
        body = _der_int(r) + _der_int(s)
        der_sig = b"\x30" + _der_len(len(body)) + body
        with tempfile.TemporaryDirectory() as d:
            for name, data in (("k.der", spki), ("s.der", der_sig), ("m.bin", msg32)):
                open(os.path.join(d, name), "wb").write(data)
            p = subprocess.run(["openssl", "pkeyutl", "-verify", "-pubin", "-keyform", "DER", "-inkey", os.path.join(d, "k.der"), "-in", os.path.join(d, "m.bin"),
                                "-sigfile", os.path.join(d, "s.der")], capture_output=True, text=True, timeout=20)
            out = p.stdout + p.stderr
            if "Verified Successfully" in out:
                return True
            if "Verification Failure" in out or "Signature Verification Failure" in out:
                return False
            return None
    except Exception:  # noqa
        return None


def selftest():
    ok = True
    for c in (K1, R1):
        ok = ok and c.on_curve(c.g) and c.mul(c.g, c.n) is None
    # sign with the reference itself, verify with OpenSSL (independent) when available
    import hashlib
    for c in (K1, R1):
        d = 0x1234567890ABCDEF1234567890ABCDEF % c.n
        q = c.mul(c.g, d)
        msg = hashlib.sha256(b"selftest" + c.name.encode()).digest()
        k = 0x0F0E0D0C0B0A09080706050403020100FF % c.n
        r = c.mul(c.g, k)[0] % c.n
        s = pow(k, c.n - 2, c.n) * (int.from_bytes(msg, "big") + r * d) % c.n
        sig = r.to_bytes(32, "big") + s.to_bytes(32, "big")
        ok = ok and c.verify(q, msg, sig)
        o = openssl_verify(c, q, msg, sig)
        if o is not None:
            ok = ok and o is True
            bad = bytearray(sig)
            bad[40] ^= 1
            ok = ok and openssl_verify(c, q, msg, bytes(bad)) is False
    return ok
