"""BLS12-381 in pure python: Fp / Fp2 arithmetic, G1 / G2 group law, ZCash
compressed encoding with full validity checks, subgroup checks and an ate
pairing (Fp12 as Fp[w]/(w^12 - 2 w^6 + 2)).  Constants are self-validated by
`selftest()` (generators on curve, r*G = O, bilinearity)."""

P = 0x1A0111EA397FE69A4B1BA7B6434BACD764774B84F38512BF6730D2A0F6B0F6241EABFFFEB153FFFFB9FEFFFFFFFFAAAB
R = 0x73EDA753299D7D483339D80809A1D80553BDA402FFFE5BFEFFFFFFFF00000001
G1X = 0x17F1D3A73197D7942695638C4FA9AC0FC3688C4F9774B905A14E3A3F171BAC586C55E83FF97A1AEFFB3AF00ADB22C6BB
G1Y = 0x08B3F481E3AAA0F1A09E30ED741D8AE4FCF5E095D5D00AF600DB18CB2C04B3EDD03CC744A2888AE40CAA232946C5E7E1
G2X = (0x024AA2B2F08F0A91260805272DC51051C6E47AD4FA403B02B4510B647AE3D1770BAC0326A805BBEFD48056C8C121BDB8,
       0x13E02B6052719F607DACD3A088274F65596BD0D09920B61AB5DA61BBDC7F5049334CF11213945D57E5AC7D055D042B7E)
G2Y = (0x0CE5D527727D6E118CC9CDC6DA2E351AADFD9BAA8CBDD3A76D429A695160D12C923AC9CC3BACA289E193548608B82801,
       0x0606C4A02EA734CC32ACD2B02BC28B99CB3E287E85A763AF267492AB572E99AB3F370D275CEC1DA1AAA9075FF05F79BE)
ATE = 0xD201000000010000


def inv(a):
    return pow(a, P - 2, P)


# ------------------------------------------------------------------ Fp2 = Fp[i]/(i^2+1), elements are (c0, c1)

def f2_add(a, b):
    return ((a[0] + b[0]) % P, (a[1] + b[1]) % P)


def f2_sub(a, b):
    return ((a[0] - b[0]) % P, (a[1] - b[1]) % P)


def f2_mul(a, b):
    return ((a[0] * b[0] - a[1] * b[1]) % P, (a[0] * b[1] + a[1] * b[0]) % P)


def f2_neg(a):
    return (-a[0] % P, -a[1] % P)


def f2_inv(a):
    d = inv((a[0] * a[0] + a[1] * a[1]) % P)
    return (a[0] * d % P, -a[1] * d % P)


def f2_sqrt(a):
    if a == (0, 0):
        return (0, 0)
    a0, a1 = a
    if a1 == 0:
        s = pow(a0, (P + 1) // 4, P)
        if s * s % P == a0:
            return (s, 0)
        s = pow(-a0 % P, (P + 1) // 4, P)
        if s * s % P == -a0 % P:
            return (0, s)
        return None
    norm = (a0 * a0 + a1 * a1) % P
    s = pow(norm, (P + 1) // 4, P)
    if s * s % P != norm:
        return None
    for sg in (s, -s % P):
        delta = (a0 + sg) * inv(2) % P
        x0 = pow(delta, (P + 1) // 4, P)
        if x0 * x0 % P != delta or x0 == 0:
            continue
        x1 = a1 * inv(2 * x0 % P) % P
        r = (x0, x1)
        if f2_mul(r, r) == (a0 % P, a1 % P):
            return r
    return None


# ------------------------------------------------------------------ generic short-Weierstrass y^2 = x^3 + b (a = 0), affine, None = infinity

class Field:
    def __init__(self, add, sub, mul, neg, inv, zero, one, b):
        self.add, self.sub, self.mul, self.neg, self.inv, self.zero, self.one, self.b = add, sub, mul, neg, inv, zero, one, b


FP = Field(lambda a, b: (a + b) % P, lambda a, b: (a - b) % P, lambda a, b: a * b % P, lambda a: -a % P, inv, 0, 1, 4)
FP2 = Field(f2_add, f2_sub, f2_mul, f2_neg, f2_inv, (0, 0), (1, 0), (4, 4))


def on_curve(F, pt):
    if pt is None:
        return True
    x, y = pt
    return F.mul(y, y) == F.add(F.mul(F.mul(x, x), x), F.b)


def ec_add(F, p1, p2):
    if p1 is None:
        return p2
    if p2 is None:
        return p1
    x1, y1 = p1
    x2, y2 = p2
    if x1 == x2:
        if y1 != y2 or y1 == F.zero:
            return None
        three = F.add(F.one, F.add(F.one, F.one))
        m = F.mul(F.mul(three, F.mul(x1, x1)), F.inv(F.add(y1, y1)))
    else:
        m = F.mul(F.sub(y2, y1), F.inv(F.sub(x2, x1)))
    x3 = F.sub(F.sub(F.mul(m, m), x1), x2)
    return (x3, F.sub(F.mul(m, F.sub(x1, x3)), y1))


def ec_neg(F, p):
    return None if p is None else (p[0], F.neg(p[1]))


def ec_mul(F, p, k):
    if k < 0:
        return ec_mul(F, ec_neg(F, p), -k)
    r = None
    q = p
    while k:
        if k & 1:
            r = ec_add(F, r, q)
        q = ec_add(F, q, q)
        k >>= 1
    return r


G1 = (G1X, G1Y)
G2 = (G2X, G2Y)


# ------------------------------------------------------------------ compressed encodings

def y_is_largest_fp(y):
    return y > (P - 1) // 2


def y_is_largest_fp2(y):
    return y[1] > (P - 1) // 2 if y[1] != 0 else y[0] > (P - 1) // 2


def decode_g1(b: bytes, subgroup=True):
    """returns (point or None for infinity) or raises ValueError"""
    if len(b) != 48:
        raise ValueError("length")
    f = b[0]
    if not f & 0x80:
        raise ValueError("not compressed")
    if f & 0x40:
        if f != 0xC0 or any(b[1:]):
            raise ValueError("bad infinity")
        return None
    x = int.from_bytes(bytes([f & 0x1F]) + b[1:], "big")
    if x >= P:
        raise ValueError("x not canonical")
    y2 = (x * x * x + 4) % P
    y = pow(y2, (P + 1) // 4, P)
    if y * y % P != y2:
        raise ValueError("not on curve")
    if y_is_largest_fp(y) != bool(f & 0x20):
        y = -y % P
    pt = (x, y)
    if subgroup and ec_mul(FP, pt, R) is not None:
        raise ValueError("not in subgroup")
    return pt


def encode_g1(pt) -> bytes:
    if pt is None:
        return b"\xc0" + bytes(47)
    x, y = pt
    b = bytearray(x.to_bytes(48, "big"))
    b[0] |= 0x80 | (0x20 if y_is_largest_fp(y) else 0)
    return bytes(b)


def decode_g2(b: bytes, subgroup=True):
    if len(b) != 96:
        raise ValueError("length")
    f = b[0]
    if not f & 0x80:
        raise ValueError("not compressed")
    if f & 0x40:
        if f != 0xC0 or any(b[1:]):
            raise ValueError("bad infinity")
        return None
    x1 = int.from_bytes(bytes([f & 0x1F]) + b[1:48], "big")
    x0 = int.from_bytes(b[48:], "big")
    if x0 >= P or x1 >= P:
        raise ValueError("x not canonical")
    x = (x0, x1)
    y2 = f2_add(f2_mul(f2_mul(x, x), x), (4, 4))
    y = f2_sqrt(y2)
    if y is None:
        raise ValueError("not on curve")
    if y_is_largest_fp2(y) != bool(f & 0x20):
        y = f2_neg(y)
    pt = (x, y)
    if subgroup and ec_mul(FP2, pt, R) is not None:
        raise ValueError("not in subgroup")
    return pt


def encode_g2(pt) -> bytes:
    if pt is None:
        return b"\xc0" + bytes(95)
    (x0, x1), y = pt
    b = bytearray(x1.to_bytes(48, "big") + x0.to_bytes(48, "big"))
    b[0] |= 0x80 | (0x20 if y_is_largest_fp2(y) else 0)
    return bytes(b)


# ------------------------------------------------------------------ Fp12 = Fp[w]/(w^12 - 2w^6 + 2): lists of 12 ints

ONE12 = [1] + [0] * 11


def f12_mul(a, b):
    t = [0] * 23
    for i, x in enumerate(a):
        if x:
            for j, y in enumerate(b):
                t[i + j] += x * y
    for k in range(22, 11, -1):
        c = t[k]
        if c:
            t[k - 6] += 2 * c
            t[k - 12] -= 2 * c
    return [x % P for x in t[:12]]


def f12_add(a, b):
    return [(x + y) % P for x, y in zip(a, b)]


def f12_sub(a, b):
    return [(x - y) % P for x, y in zip(a, b)]


def f12_scalar(a, k):
    return [x * k % P for x in a]


def _deg(p):
    d = len(p) - 1
    while d > 0 and p[d] % P == 0:
        d -= 1
    return d


def f12_inv(a):
    # extended Euclid on polynomials over Fp: find u with u*a = 1 mod m(w)
    m = [2, 0, 0, 0, 0, 0, -2 % P, 0, 0, 0, 0, 0, 1]
    r0, r1 = m[:], [x % P for x in a] + [0]
    s0, s1 = [0] * 13, [1] + [0] * 12
    while _deg(r1) > 0 or r1[0] % P != 0:
        d0, d1 = _deg(r0), _deg(r1)
        if d0 < d1:
            r0, r1, s0, s1 = r1, r0, s1, s0
            continue
        if d1 == 0 and r1[0] % P != 0:
            break
        # r0 -= q * w^(d0-d1) * r1
        q = r0[d0] * inv(r1[d1]) % P
        sh = d0 - d1
        for i in range(d1 + 1):
            r0[i + sh] = (r0[i + sh] - q * r1[i]) % P
        for i in range(13 - sh):
            s0[i + sh] = (s0[i + sh] - q * s1[i]) % P
        if _deg(r0) == 0 and r0[0] % P == 0:
            raise ZeroDivisionError("not invertible")
        if _deg(r0) < _deg(r1):
            r0, r1, s0, s1 = r1, r0, s1, s0
    c = inv(r1[0])
    res = [x * c % P for x in s1[:12]]
    return res


def f12_pow(a, e):
    r = ONE12
    b = a
    while e:
        if e & 1:
            r = f12_mul(r, b)
        b = f12_mul(b, b)
        e >>= 1
    return r


F12 = Field(f12_add, f12_sub, f12_mul, lambda a: [(-x) % P for x in a], f12_inv, [0] * 12, ONE12, [4] + [0] * 11)

W = [0, 1] + [0] * 10
W2_INV = None
W3_INV = None


def twist(pt):
    """G2 point over Fp2 -> point on y^2 = x^3 + 4 over Fp12"""
    global W2_INV, W3_INV
    if pt is None:
        return None
    if W2_INV is None:
        w2 = f12_mul(W, W)
        W2_INV = f12_inv(w2)
        W3_INV = f12_inv(f12_mul(w2, W))
    (x0, x1), (y0, y1) = pt
    # i = w^6 - 1  =>  a + b*i = (a - b) + b*w^6
    nx = [(x0 - x1) % P] + [0] * 5 + [x1] + [0] * 5
    ny = [(y0 - y1) % P] + [0] * 5 + [y1] + [0] * 5
    return (f12_mul(nx, W2_INV), f12_mul(ny, W3_INV))


def cast12(pt):
    if pt is None:
        return None
    return ([pt[0]] + [0] * 11, [pt[1]] + [0] * 11)


def linefunc(p1, p2, t):
    x1, y1 = p1
    x2, y2 = p2
    xt, yt = t
    if x1 != x2:
        m = f12_mul(f12_sub(y2, y1), f12_inv(f12_sub(x2, x1)))
        return f12_sub(f12_mul(m, f12_sub(xt, x1)), f12_sub(yt, y1))
    if y1 == y2:
        m = f12_mul(f12_scalar(f12_mul(x1, x1), 3), f12_inv(f12_scalar(y1, 2)))
        return f12_sub(f12_mul(m, f12_sub(xt, x1)), f12_sub(yt, y1))
    return f12_sub(xt, x1)


def miller(q, p):
    """Miller loop for twist(q) in G2, p in G1 (both affine, not infinity); no final exponentiation"""
    Q = twist(q)
    Pp = cast12(p)
    Rr = Q
    f = ONE12
    for i in range(ATE.bit_length() - 2, -1, -1):
        f = f12_mul(f12_mul(f, f), linefunc(Rr, Rr, Pp))
        Rr = ec_add(F12, Rr, Rr)
        if ATE & (1 << i):
            f = f12_mul(f, linefunc(Rr, Q, Pp))
            Rr = ec_add(F12, Rr, Q)
    return f


FINAL_EXP = (P ** 12 - 1) // R


def pairing_product_is_one(pairs):
    """pairs: list of (g1 point, g2 point); infinity on either side contributes 1"""
    f = ONE12
    for p, q in pairs:
        if p is None or q is None:
            continue
        f = f12_mul(f, miller(q, p))
    return f12_pow(f, FINAL_EXP) == ONE12


def selftest(full=True):
    ok = on_curve(FP, G1) and on_curve(FP2, G2)
    ok = ok and ec_mul(FP, G1, R) is None and ec_mul(FP2, G2, R) is None
    ok = ok and encode_g1(G1).hex().startswith("97f1d3a73197d7942695638c4fa9ac0f")
    ok = ok and decode_g1(encode_g1(G1)) == G1 and decode_g2(encode_g2(G2)) == G2
    a = [3, 1, 4, 1, 5, 9, 2, 6, 5, 3, 5, 8]
    ok = ok and f12_mul(a, f12_inv(a)) == ONE12
    if full and ok:
        # bilinearity: e(2G1, 3G2) * e(-6 G1, G2) == 1, and e(G1, G2) != 1
        ok = pairing_product_is_one([(ec_mul(FP, G1, 2), ec_mul(FP2, G2, 3)), (ec_mul(FP, G1, -6), G2)])
        ok = ok and not pairing_product_is_one([(G1, G2)])
        ok = ok and not pairing_product_is_one([(ec_mul(FP, G1, 2), ec_mul(FP2, G2, 3)), (ec_mul(FP, G1, -5), G2)])
    return ok
