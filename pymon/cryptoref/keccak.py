"""Keccak-f[1600] written from the specification: round constants from the
degree-8 LFSR, rotation offsets from the (x,y) -> (y, 2x+3y) recurrence.
Self-test: with SHA-3 padding (0x06) it must equal hashlib.sha3_256."""

MASK = (1 << 64) - 1


def _rc():
    out = []
    r = 1
    for _ in range(24):
        c = 0
        for j in range(7):
            if r & 1:
                c |= 1 << ((1 << j) - 1)
            # LFSR x^8 + x^6 + x^5 + x^4 + 1
            r = ((r << 1) ^ (0x71 if r & 0x80 else 0)) & 0xFF
        out.append(c)
    return out


def _rot():
    rot = [[0] * 5 for _ in range(5)]
    x, y = 1, 0
    for t in range(24):
        rot[x][y] = ((t + 1) * (t + 2) // 2) % 64
        x, y = y, (2 * x + 3 * y) % 5
    return rot


RC = _rc()
ROT = _rot()


def _rol(v, n):
    n %= 64
    return ((v << n) | (v >> (64 - n))) & MASK if n else v


def keccak_f(a):
    for rnd in range(24):
        c = [a[x][0] ^ a[x][1] ^ a[x][2] ^ a[x][3] ^ a[x][4] for x in range(5)]
        d = [c[(x - 1) % 5] ^ _rol(c[(x + 1) % 5], 1) for x in range(5)]
        a = [[a[x][y] ^ d[x] for y in range(5)] for x in range(5)]
        b = [[0] * 5 for _ in range(5)]
        for x in range(5):
            for y in range(5):
                b[y][(2 * x + 3 * y) % 5] = _rol(a[x][y], ROT[x][y])
        a = [[b[x][y] ^ ((~b[(x + 1) % 5][y]) & b[(x + 2) % 5][y]) for y in range(5)] for x in range(5)]
        a[0][0] ^= RC[rnd]
    return a


def sponge256(data: bytes, pad: int) -> bytes:
    rate = 136
    msg = bytearray(data)
    msg.append(pad)
    while len(msg) % rate:
        msg.append(0)
    msg[-1] |= 0x80
    a = [[0] * 5 for _ in range(5)]
    for off in range(0, len(msg), rate):
        block = msg[off:off + rate]
        for i in range(rate // 8):
            a[i % 5][i // 5] ^= int.from_bytes(block[8 * i:8 * i + 8], "little")
        a = keccak_f(a)
    out = b""
    for i in range(4):
        out += a[i % 5][i // 5].to_bytes(8, "little")
    return out


def keccak256(data: bytes) -> bytes:
    return sponge256(data, 0x01)


def sha3_256(data: bytes) -> bytes:
    return sponge256(data, 0x06)


def selftest(n=300):
    import hashlib, random
    rnd = random.Random(7)
    for i in range(n):
        ln = rnd.choice([0, 1, 55, 135, 136, 137, 271, 272, 273, rnd.randrange(500)])
        d = bytes(rnd.getrandbits(8) for _ in range(ln))
        if sha3_256(d) != hashlib.sha3_256(d).digest():
            return False
    # well known: keccak256("") 
    return keccak256(b"").hex() == "c5d2460186f7233c927e7db2dcc703c0e500b653ca82273b7bfad8045d85a470"
