"""Confirms the python-wheel seeded changes (C26, C27, C28) in a scratch worktree."""
import json, os, subprocess, shutil, sys
WT = "/root/scratch/confirmpy"
BASE = "2717fa1"
env = dict(os.environ, CARGO_TARGET_DIR=WT + "-target", CARGO_NET_OFFLINE="true")
def sh(cmd, cwd=WT, extra=None):
    e = dict(env); e.update(extra or {})
    p = subprocess.run(cmd, cwd=cwd, env=e, shell=True, capture_output=True, text=True)
    return p.returncode, (p.stdout + p.stderr)[-1500:]
def build_pkg():
    rc, out = sh("cargo build --release --offline -p clvm_rs 2>&1 | tail -2")
    pkg = WT + "-pypkg/clvm_rs"
    shutil.rmtree(WT + "-pypkg", ignore_errors=True)
    shutil.copytree(os.path.join(WT, "wheel/python/clvm_rs"), pkg)
    shutil.copy(WT + "-target/release/libclvm_rs.so", pkg + "/clvm_rs.abi3.so")
    return rc
os.makedirs("/root/scratch", exist_ok=True)
subprocess.run(["git", "-C", "/repo", "worktree", "remove", "--force", WT], capture_output=True)
subprocess.run(["git", "-C", "/repo", "worktree", "add", "-q", "--detach", WT, BASE], check=True)
try:
    for sid in ["C26", "C27", "C28"]:
        d = f"/verif/seeded/{sid}"
        mp = d + "/meta.json"
        meta = json.load(open(mp)) if os.path.exists(mp) else {}
        sh("git checkout -q -- .")
        build_pkg()
        rc0, out0 = sh(f"python3 {d}/seeded_demo.py", extra={"PYTHONPATH": WT + "-pypkg"})
        rc, out = sh(f"git apply {d}/patch.diff")
        if rc != 0:
            meta["confirmation"] = {"error": "patch does not apply", "detail": out[-200:]}
        else:
            rs, outs = sh("cargo nextest run --workspace --no-fail-fast --test-threads 8 --offline 2>&1 | tail -3")
            build_pkg()
            rc1, out1 = sh(f"python3 {d}/seeded_demo.py", extra={"PYTHONPATH": WT + "-pypkg"})
            meta["confirmation"] = {"base_commit": BASE, "suite_with_change": outs.strip().splitlines()[-1] if outs.strip() else "",
                                    "suite_passes_with_change": "passed" in outs and " failed" not in outs.split("Summary")[-1],
                                    "demo_passes_without_change": rc0 == 0, "demo_fails_with_change": rc1 != 0,
                                    "demo_output_with_change": out1[-300:]}
        json.dump(meta, open(mp, "w"), indent=1)
        print(sid, meta["confirmation"], flush=True)
finally:
    subprocess.run(["git", "-C", "/repo", "worktree", "remove", "--force", WT], capture_output=True)
    shutil.rmtree(WT + "-target", ignore_errors=True)
    shutil.rmtree(WT + "-pypkg", ignore_errors=True)
