"""C10 oracle: per-operator cost formulas (docs/cost-model.md, docs/sha256tree.md,
in-source constant tables) evaluated on the logged arguments; compared with the
cost charged by every *successful* operator call."""
import sys
from pymon import refclvm as R
from pymon.pycheck import Checker, args_list, arg_bytes

NEW = 0x2000

REF_METHOD = {"i": "op_if", "c": "op_cons", "f": "op_first", "r": "op_rest", "l": "op_listp", "=": "op_eq", ">s": "op_gr_bytes", "sha256": "op_sha256",
              "substr": "op_substr", "strlen": "op_strlen", "concat": "op_concat", "+": "op_add", "-": "op_subtract", "*": "op_multiply", "/": "op_div",
              "divmod": "op_divmod", ">": "op_gr", "ash": "op_ash", "lsh": "op_lsh", "logand": "op_logand", "logior": "op_logior", "logxor": "op_logxor",
              "lognot": "op_lognot", "not": "op_not", "any": "op_any", "all": "op_all", "coinid": "op_coinid", "modpow": "op_modpow", "mod": "op_mod",
              "keccak256": "op_keccak256", "sha256tree": "op_sha256tree"}


def flat(args):
    out = []
    while isinstance(args, tuple):
        out.append(args[0])
        args = args[1]
    return out


def bls_cost(op, items, new):
    """formulas for the operators whose result needs curve arithmetic: only sizes matter"""
    n = len(items)
    L = lambda i: len(items[i]) if i < n and isinstance(items[i], bytes) else 0
    if op in ("point_add", "g1_subtract"):
        return 101094 + 1343980 * n + 480
    if op == "pubkey_for_exp":
        return 1325730 + 38 * L(0) + 480
    if op == "g1_multiply":
        return (1900000 + 24 * L(1) if new else 705500 + 10 * L(1)) + 480
    if op == "g2_multiply":
        return (3000000 + 23 * L(1) if new else 2100000 + 5 * L(1)) + 960
    if op == "g1_negate":
        return 1396
    if op == "g2_negate":
        return 2164
    if op in ("g2_add", "g2_subtract"):
        return 80000 + 1950000 * n + 960
    if op in ("g1_map", "g2_map"):
        dst = L(1) if n == 2 else 43
        if op == "g1_map":
            return (700000 + 3 * L(0) + 2 * dst if new else 195000 + 4 * L(0) + 4 * dst) + 480
        return (2700000 + 3 * L(0) + 2 * dst if new else 815000 + 4 * L(0) + 4 * dst) + 960
    if op == "bls_pairing_identity":
        return (1000000 + 5000000 * (n // 2)) if new else (3000000 + 1200000 * (n // 2))
    if op == "bls_verify":
        pairs = (n - 1) // 2
        msgs = sum(L(2 + 2 * k) for k in range(pairs))
        if new:
            return 1000000 + pairs * (5000000 + 2 * 43) + 3 * msgs
        return 3000000 + pairs * (1200000 + 4 * 43) + 4 * msgs
    if op == "secp256k1_verify":
        return 1300000
    if op == "secp256r1_verify":
        return 1850000
    return None


def main():
    sys.setrecursionlimit(100000)
    c = Checker("C10")
    from pymon import optests
    total, failed, _ = optests.run()
    if failed or total < 3000:
        print(f"INCONCLUSIVE cost-model reference fails its own op-test validation ({failed}/{total})")
        return 3
    for rec in c.records():
        res = rec["res"]
        if not res["ok"]:
            continue
        op = rec["op"]
        new = bool(rec["flags"] & NEW)
        args = args_list(rec)
        if args is None:
            c.count("skipped_args_too_big_to_log")
            continue
        items = flat(args)
        expected = None
        if op in REF_METHOD:
            ref = R.Ref(new=new)
            # the operator succeeded in clvm_rs; evaluate the documented formula on the same arguments
            ref.as_iter = lambda a, tolerant=False: flat(a)
            try:
                expected, _ = getattr(ref, REF_METHOD[op])(args)
            except R.EvalError as e:
                c.count("reference_rejects_call_that_succeeded:" + op)
                c.violation("operator-succeeds-where-documented-semantics-fail", rec, {"op": op, "reference_error": str(e)})
                continue
        else:
            expected = bls_cost(op, items, new)
        if expected is None:
            c.count("no_formula:" + op)
            continue
        if rec.get("kind") == "prog":
            # interpreter overhead: 1 for the operator + 20 per quoted argument
            expected += 1 + 20 * rec["nargs"]
        c.evaluations += 1
        c.count(("new:" if new else "old:") + op)
        sizes = [len(x) if isinstance(x, bytes) else -1 for x in items]
        c.nontrivial(op, new, rec.get("kind", "call"), sizes, rec["args"] if len(str(rec["args"])) < 300 else len(str(rec["args"])))
        if len(c.samples) < 4:
            c.sample({"op": op, "new_cost_model": new, "arg_sizes": sizes, "charged": res["cost"], "formula": expected})
        if res["cost"] != expected:
            c.violation("charged-cost-differs-from-formula", rec, {"op": op, "new_cost_model": new, "arg_sizes": sizes, "charged": res["cost"], "formula": expected,
                                                                     "kind": rec.get("kind", "call")})
    return c.finish()


if __name__ == "__main__":
    sys.exit(main())
