"""Confirms every seeded change in a scratch worktree (outside /repo and /verif):
   (1) existing test suite passes with the change, (2) the demonstration fails with it,
   (3) the demonstration passes without it.  Results go to seeded/<id>/meta.json."""
import json, os, subprocess, sys, shutil, time
ROOT = "/verif"
WT = os.environ.get("CONFIRM_WT", "/root/scratch/confirm")
BASE = sys.argv[1] if len(sys.argv) > 1 else "2717fa1"
ids = sys.argv[2:] or sorted(os.listdir(os.path.join(ROOT, "seeded")))
env = dict(os.environ, CARGO_TARGET_DIR=WT + "-target", CARGO_NET_OFFLINE="true")

def sh(cmd, cwd=WT, timeout=3600):
    p = subprocess.run(cmd, cwd=cwd, env=env, shell=True, capture_output=True, text=True, timeout=timeout)
    return p.returncode, (p.stdout + p.stderr)[-3000:]

os.makedirs("/root/scratch", exist_ok=True)
subprocess.run(["git", "-C", "/repo", "worktree", "remove", "--force", WT], capture_output=True)
subprocess.run(["git", "-C", "/repo", "worktree", "add", "-q", "--detach", WT, BASE], check=True)
try:
    for sid in ids:
        d = os.path.join(ROOT, "seeded", sid)
        demo_rs = os.path.join(d, "seeded_demo.rs")
        if not os.path.exists(os.path.join(d, "patch.diff")) or not os.path.exists(demo_rs):
            print(sid, "skipped (no rust demo)")
            continue
        mp = os.path.join(d, "meta.json")
        meta = json.load(open(mp)) if os.path.exists(mp) else {}
        sh("git checkout -q -- . && git clean -fdq tests")
        rc, out = sh(f"git apply {d}/patch.diff")
        if rc != 0:
            meta["confirmation"] = {"error": "patch does not apply on " + BASE, "detail": out[-300:]}
            json.dump(meta, open(mp, "w"), indent=1)
            print(sid, "patch does not apply")
            continue
        t0 = time.time()
        rc_suite, out_suite = sh("cargo nextest run --workspace --no-fail-fast --test-threads 8 --offline 2>&1 | tail -5")
        suite_ok = "passed" in out_suite and "failed" not in out_suite.split("Summary")[-1]
        shutil.copy(demo_rs, os.path.join(WT, "tests", "seeded_demo.rs"))
        rc_with, out_with = sh("cargo test --offline --test seeded_demo 2>&1 | tail -6")
        sh("git checkout -q -- .")
        rc_without, out_without = sh("cargo test --offline --test seeded_demo 2>&1 | tail -6")
        os.remove(os.path.join(WT, "tests", "seeded_demo.rs"))
        meta["confirmation"] = {
            "base_commit": BASE,
            "suite_with_change": out_suite.strip().splitlines()[-1] if out_suite.strip() else "",
            "suite_passes_with_change": suite_ok,
            "demo_fails_with_change": "FAILED" in out_with or "failed" in out_with,
            "demo_passes_without_change": "test result: ok" in out_without,
            "wall_s": round(time.time() - t0),
        }
        json.dump(meta, open(mp, "w"), indent=1)
        print(sid, meta["confirmation"], flush=True)
finally:
    subprocess.run(["git", "-C", "/repo", "worktree", "remove", "--force", WT], capture_output=True)
    shutil.rmtree(WT + "-target", ignore_errors=True)
