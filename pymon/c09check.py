"""C09 oracle: the published unknown-operator rule, evaluated with unbounded
python integers, against the logged outcomes of op_unknown / ChiaDialect /
RuntimeDialect."""
import sys
from pymon.pycheck import Checker, arg_bytes

NEW_COST_MODEL = 0x2000
NO_UNKNOWN_OPS = 0x0002
U32 = (1 << 32) - 1


def rule(op: bytes, items, tail, new, budget):
    """returns ("ok", cost) or ("fail", reason); `items` are atoms (bytes) or pairs (tuples)"""
    if len(op) == 0 or op[:2] == b"\xff\xff":
        return ("fail", "reserved")
    if len(op) > 5:
        return ("fail", "opcode longer than 5 bytes")
    fn = (op[-1] & 0xC0) >> 6
    mult = int.from_bytes(op[:-1], "big") + 1
    if fn == 0:
        base = 1
    else:
        lens = []
        for a in items:
            if isinstance(a, tuple):
                # the pair may only be reached if the running base did not already exceed the budget
                part = partial_base(fn, lens, new)
                return ("fail", "cost" if part > budget else "pair argument")
            lens.append(len(a))
        base = partial_base(fn, lens, new)
    if base > budget:
        return ("fail", "cost")
    cost = base * mult
    if cost > U32:
        return ("fail", "product exceeds 2^32-1")
    return ("ok", cost)


def partial_base(fn, lens, new):
    if fn == 1:
        if new:
            c, acc = 99, 0
            for l in lens:
                c += 500 + 4 * max(acc, l)
                acc = max(acc, l)
            return c
        return 99 + 320 * len(lens) + 3 * sum(lens)
    if fn == 2:
        c = 2000 if new else 92
        div = 16 if new else 128
        if lens:
            vs = lens[0]
            if new:
                c += 6 * vs
            for rs in lens[1:]:
                c += 885 + 6 * (vs + rs) + (vs * rs) // div
                vs += rs
        return c
    return 142 + 135 * len(lens) + 3 * sum(lens)


def main():
    c = Checker("C09")
    for rec in c.records():
        op = bytes.fromhex(rec["opcode"])
        items = [arg_bytes(a) for a in rec["args"]]
        if any(x is None for x in items):
            continue
        new = bool(rec["flags"] & NEW_COST_MODEL)
        strict = bool(rec["flags"] & NO_UNKNOWN_OPS) and rec["via"] != "op_unknown"
        exp = ("fail", "strict mode") if strict else rule(op, items, None, new, rec["budget"])
        got = rec["res"]
        c.evaluations += 1
        c.count(f"expected_{exp[0]}" + ("" if exp[0] == "ok" else ":" + exp[1]))
        fn = (op[-1] >> 6) if op else 0
        if op and (items or len(op) > 1):
            c.nontrivial(rec["opcode"], rec["flags"] & (NEW_COST_MODEL | NO_UNKNOWN_OPS), rec["budget"], [len(x) if isinstance(x, bytes) else -1 for x in items])
            c.sample({"opcode": rec["opcode"], "arg_lengths": [len(x) if isinstance(x, bytes) else "pair" for x in items], "new_cost_model": new,
                      "via": rec["via"], "expected": exp, "observed": got})
        ok = (got["ok"] and exp[0] == "ok" and got["cost"] == exp[1] and got.get("nil", True)) or (not got["ok"] and exp[0] == "fail")
        # a failing case may fail for either of two simultaneously applicable reasons; only ok/fail + cost are compared
        if not ok:
            detail = {"expected": exp, "observed": got, "opcode": rec["opcode"], "cost_function": fn,
                      "arg_lengths": [len(x) if isinstance(x, bytes) else "pair" for x in items], "new_cost_model": new, "budget": rec["budget"], "via": rec["via"]}
            sig = "unknown-op-rule-violated"
            if exp == ("fail", "product exceeds 2^32-1") and got["ok"] and not new:
                base = partial_base(fn, [len(x) for x in items], new) if fn else 1
                true = base * (int.from_bytes(op[:-1], "big") + 1)
                if true >= 1 << 64 and got["cost"] == true % (1 << 64):
                    sig = "op_unknown/old-cost-model/product>=2^64-accepted-modulo-2^64"
                    detail["true_product"] = str(true)
            c.violation(sig, rec, detail)
    return c.finish()


if __name__ == "__main__":
    sys.exit(main())
