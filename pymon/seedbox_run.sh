#!/bin/bash
# usage: run.sh <seed-id> <prop> [<prop>...]   -- isolated copy of /verif + worktree of /repo, so /repo itself is never touched
sid=$1; shift
SB=/root/seedbox
rsync -a --delete --exclude build --exclude .git --exclude replays --exclude evidence /verif/ $SB/verif/
mkdir -p $SB/verif/evidence
sed -i 's|clvmr = { path = "/repo" }|clvmr = { path = "/root/seedbox/repo" }|' $SB/verif/harness/Cargo.toml
cd $SB/repo && git checkout -q -- . && git checkout -q --detach $(git -C /repo rev-parse HEAD) && git apply /verif/seeded/$sid/patch.diff || { echo "patch failed"; exit 2; }
cd $SB/verif
for p in "$@"; do
  VERIF_REPO=$SB/repo ./check $p --tier quick > $SB/out_${sid}_$p.log 2>&1
  rc=$?
  sigs=$(python3 -c "
import json
try:
    ev=json.load(open('$SB/verif/evidence/$p.json')); print(sorted({e.get('signature','?') for e in ev['coverage'].get('violation_examples',[])}))
except Exception as e: print('?')")
  vl=$(grep -c '^VIOLATION' $SB/out_${sid}_$p.log)
  echo "$sid $p exit=$rc violation_lines=$vl signatures=$sigs"
  python3 - <<PY
import json,os,ast
mp='/verif/seeded/$sid/meta.json'
m=json.load(open(mp)) if os.path.exists(mp) else {}
try: sg=ast.literal_eval("""$sigs""")
except Exception: sg=None
m.setdefault('detection',{})['$p']={'exit':$rc,'violation_lines':$vl,'signatures':sg,'where':'isolated copy of /verif with a scratch worktree of /repo (seedbox)'}
json.dump(m,open(mp,'w'),indent=1)
PY
done
cd $SB/repo && git checkout -q -- .
