"""prints the prompt handed to a fresh sub-agent that seeds a property-breaking change"""
import json, sys
pid = sys.argv[1]
for l in open('/verif/properties.jsonl'):
    p = json.loads(l)
    if p['id'] == pid:
        break
print(f"""You are given a scratch git worktree of the Rust project Chia-Network/clvm_rs (the Chia Lisp VM: arena allocator, cost-metered interpreter, operators, serializers, Python bindings in wheel/) at:

    /tmp/wt/{pid}

Work ONLY inside that directory (never touch /repo or /verif). Everything is offline: use `cargo ... --offline`; no crates can be fetched. Use a private build directory by exporting CARGO_TARGET_DIR=/tmp/wt/{pid}/target for every cargo command.

Here is a semantic property the code base is supposed to satisfy:

  Title: {p['title']}
  Statement: {p['statement']}
  Quantified over: {p['quantifier']['text']}
  Relevant files: {', '.join(p['anchors']['files'])}

YOUR TASK: craft ONE realistic source change to the library (a plausible bug a maintainer could introduce: an off-by-one, a dropped check, a wrong constant in one branch, a missed case in an optimisation, a stale cache, two sites that each look fine alone...) that BREAKS this property while
  (a) the project still compiles,
  (b) the ENTIRE existing test suite still passes: run `cd /tmp/wt/{pid} && CARGO_TARGET_DIR=/tmp/wt/{pid}/target cargo test --workspace --no-fail-fast --offline 2>&1 | tail -40` (all test results must be ok; it takes a few minutes the first time), and
  (c) the breakage needs something SPECIFIC to manifest -- an unusual input, a particular size/boundary, a multi-step sequence of operations, a particular flag combination, a particular internal representation -- and is NOT exposed at once by ordinary use. Subtle is better than blatant. Do not change or delete existing tests, do not change public function signatures, do not touch Cargo.toml features named verif-hooks or the file src/verif_hooks.rs.

Then write a DEMONSTRATION: a small Rust integration test file `tests/seeded_demo.rs` (or, for Python-wheel properties, a small python script `seeded_demo.py` with instructions) that FAILS with your change and PASSES on the original code. Verify both directions yourself (use `git stash` / `git diff > /tmp/wt/{pid}/patch.diff; git checkout -- src wheel; ...; git apply patch.diff`). The demo must only use the crate's public API.

Deliver, inside /tmp/wt/{pid}/ :
  - patch.diff      : `git diff` of your source change ONLY (not including the demo test), applicable with `git apply` on the original tree
  - tests/seeded_demo.rs (or seeded_demo.py) : the demonstration
  - NOTES.md        : what the change is, why the existing tests miss it, and exactly what is needed for it to manifest

Leave the worktree with the change APPLIED and the demo present. In your final answer, summarise: the change (file/function), the trigger condition, the commands you ran and their results (test suite with change: pass; demo with change: fail; demo without change: pass). Be honest if you could not satisfy a requirement.""")
