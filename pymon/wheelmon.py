"""Python-side monitors for the wheel: C26 (bindings reproduce the Rust core),
C27 (clvm_tree_to_lazy_node), C28 (pure-python helpers), and the wheel part of
C22 (sha256_treehash).  Imports the freshly built package from build/pypkg."""
import gc, hashlib, io, random, sys
from pymon import refclvm as R
from pymon.pycheck import Checker


def walk(node):
    """LazyNode / any CLVMStorage -> python tuple tree through .atom/.pair (iterative)"""
    vals, ops = [], [(0, node)]
    while ops:
        k, x = ops.pop()
        if k == 1:
            r = vals.pop()
            l = vals.pop()
            vals.append((l, r))
            continue
        a = x.atom
        if a is not None:
            if x.pair is not None:
                raise AssertionError("node exposes both atom and pair")
            vals.append(bytes(a))
        else:
            p = x.pair
            if p is None:
                raise AssertionError("node exposes neither atom nor pair")
            ops.append((1, None))
            ops.append((0, p[1]))
            ops.append((0, p[0]))
    return vals[0]


def main_c26():
    import clvm_rs.clvm_rs as w
    from clvm_rs.tree_hash import sha256_treehash
    from clvm_rs import Program
    from clvm_rs.clvm_tree import CLVMTree
    c = Checker("C26")
    for rec in c.records():
        k = rec["kind"]
        if k == "run":
            c.evaluations += 1
            prog, env = bytes.fromhex(rec["program"]), bytes.fromhex(rec["env"])
            try:
                cost, node = w.run_serialized_chia_program(prog, env, rec["budget"], rec["flags"])
                got = {"ok": True, "cost": cost, "result": R.ser(walk(node)).hex()}
            except ValueError as e:
                if len(e.args) == 2:
                    # (message, LazyNode of the offending node)
                    got = {"ok": False, "msg": e.args[0]}
                else:
                    got = {"decode_error": str(e.args[0])}
            exp = dict(rec["res"])
            exp.pop("variant", None)
            if isinstance(exp.get("result"), dict):
                exp.pop("result")
                got.pop("result", None)
            c.count("run_" + ("ok" if got.get("ok") else "undecodable" if "decode_error" in got else "err"))
            if "decode_error" not in exp:
                c.nontrivial("run", rec["program"], rec["env"], rec["budget"], rec["flags"])
                if len(c.samples) < 2:
                    c.sample({"kind": "run", "program": rec["program"][:200], "flags": hex(rec["flags"]), "budget": rec["budget"], "rust": exp})
            if got != exp:
                c.violation("wheel-run-differs-from-rust", rec, {"wheel": got, "rust": exp, "flags": hex(rec["flags"])})
        elif k == "ser":
            c.evaluations += 1
            tree = bytes.fromhex(rec["tree"])
            node = w.deser_legacy(tree)
            outs = {"legacy": w.ser_legacy(node).hex(), "backrefs": w.ser_backrefs(node).hex(), "s2026": w.ser_2026(node).hex()}
            for name, v in outs.items():
                if not rec[name].startswith("ERR:") and v != rec[name]:
                    c.violation(f"wheel-ser-differs-from-rust/{name}", rec, {"wheel": v[:400], "rust": rec[name][:400]})
            # LazyNode views reproduce the tree
            if R.ser(walk(node)).hex() != rec["tree"]:
                c.violation("lazynode-view-differs", rec, {})
            # wheel tree hashes (C22): Program, CLVMTree, LazyNode
            th = bytes.fromhex(rec["tree_hash"])
            for name, obj in (("LazyNode", node), ("Program", Program.from_bytes(tree)), ("CLVMTree", CLVMTree.from_bytes(tree)),
                              ("Program.to(tuple tree)", Program.to(walk(node)))):
                h = obj.tree_hash() if isinstance(obj, Program) else sha256_treehash(obj)
                c.count("wheel_tree_hashes")
                if h != th:
                    c.violation("wheel-tree-hash-differs", rec, {"object": name, "wheel": h.hex(), "rust": rec["tree_hash"]})
            c.nontrivial("ser", rec["tree"])
        elif k == "deser":
            c.evaluations += 1
            blob = bytes.fromhex(rec["blob"])
            for name, fn in (("legacy", w.deser_legacy), ("backrefs", w.deser_backrefs), ("s2026", lambda b: w.deser_2026(b)),
                             ("s2026_lenient", lambda b: w.deser_2026(b, strict=False)), ("auto", lambda b: w.deser_auto(b))):
                exp = rec[name]
                try:
                    n = fn(blob)
                    got = {"ok": R.ser(walk(n)).hex()}
                except ValueError as e:
                    got = {"err": str(e)}
                if isinstance(exp.get("ok"), dict):
                    continue
                same = got == exp
                if not same and "err" in got and "err" in exp and name.startswith("s2026") and not blob.startswith(b"\xfd\xff2026"):
                    same = True  # the wheel replaces the message for a missing prefix by a friendlier one
                if not same:
                    c.violation(f"wheel-deser-differs-from-rust/{name}", rec, {"wheel": got, "rust": exp})
            try:
                sl = w.serialized_length(blob)
            except ValueError:
                sl = None
            if sl != rec["serialized_length"]:
                c.violation("wheel-serialized_length-differs", rec, {"wheel": sl, "rust": rec["serialized_length"]})
            if "ok" in rec["legacy"] or "ok" in rec["backrefs"]:
                c.nontrivial("deser", rec["blob"])
            c.count("deser_" + ("accepted" if "ok" in rec["backrefs"] else "rejected"))
    return c.finish()


# ---------------------------------------------------------------- C27

class Fresh:
    """storage whose .pair builds fresh child objects on every access"""

    def __init__(self, t):
        self._t = t

    @property
    def atom(self):
        return None if isinstance(self._t, tuple) else self._t

    @property
    def pair(self):
        if isinstance(self._t, tuple):
            return (Fresh(self._t[0]), Fresh(self._t[1]))
        return None


class Pair2:
    """a pair whose children are arbitrary CLVM storage objects"""

    def __init__(self, l, r):
        self.atom = None
        self.pair = (l, r)


class Plain:
    """ordinary python tree object with stored children"""

    def __init__(self, t):
        if isinstance(t, tuple):
            self.atom = None
            self.pair = (Plain(t[0]), Plain(t[1]))
        else:
            self.atom = t
            self.pair = None


def gen_tree(rnd, size, share=True):
    pool = []
    for _ in range(max(2, size // 2)):
        k = rnd.choice([0, 1, 1, 2, 3, 8, 32, 33, 100])
        pool.append(bytes(rnd.getrandbits(8) for _ in range(k)) if rnd.random() < 0.7 else bytes([rnd.randrange(3)]) * k)
    last = pool[0]
    for _ in range(size):
        last = (rnd.choice(pool), rnd.choice(pool))
        pool.append(last)
        if not share and len(pool) > 6:
            pool.pop(rnd.randrange(len(pool) - 1))
    return last


def count_nodes(t, cap=200000):
    n, stack = 0, [t]
    while stack and n < cap:
        x = stack.pop()
        n += 1
        if isinstance(x, tuple):
            stack.extend(x)
    return n


def main_c27():
    import clvm_rs.clvm_rs as w
    from clvm_rs import Program
    from clvm_rs.clvm_tree import CLVMTree
    c = Checker("C27")
    rnd = random.Random(c.args.seed * 7919 + c.args.shard)
    ncases = 700 if c.args.tier == "quick" else 40000
    for i in range(ncases):
        if c.time_up():
            c.count("cases_not_run_time_budget", ncases - i)
            break
        size = rnd.choice([1, 3, 10, 30, 60, 120, 250])
        t = gen_tree(rnd, size, share=rnd.random() < 0.7)
        if count_nodes(t) >= 60000:
            continue
        classic = R.ser(t)
        wrappers = {
            "Program.to": lambda: Program.to(t),
            "Plain": lambda: Plain(t),
            "Fresh(.pair builds new children)": lambda: Fresh(t),
            "CLVMTree": lambda: CLVMTree.from_bytes(classic),
            "LazyNode(deser_legacy)": lambda: w.deser_legacy(classic),
            "LazyNode(deser_backrefs)": lambda: w.deser_backrefs(w.ser_backrefs(w.deser_legacy(classic))),
            "LazyNode(deser_2026)": lambda: w.deser_2026(w.ser_2026(w.deser_legacy(classic))),
            "LazyNode(program result)": lambda: w.run_serialized_chia_program(b"\x01", classic, 1000, 0)[1],
            "Program.wrap(LazyNode)": lambda: Program.wrap(w.deser_legacy(classic)),
            "Program.wrap(CLVMTree)": lambda: Program.wrap(CLVMTree.from_bytes(classic)),
            "Program.from_bytes": lambda: Program.from_bytes(classic),
        }
        if isinstance(t, tuple):
            # parts of one tree that come from separate deserialisations / runs (each has its own allocator on the
            # Rust side), combined by python objects or by Program.to
            cl, cr = R.ser(t[0]), R.ser(t[1])
            wrappers.update({
                "Mixed(LazyNode . LazyNode)": lambda: Pair2(w.deser_legacy(cl), w.deser_legacy(cr)),
                "Mixed(LazyNode(backrefs) . LazyNode(program result))": lambda: Pair2(w.deser_backrefs(w.ser_backrefs(w.deser_legacy(cl))), w.run_serialized_chia_program(b"\x01", cr, 1000, 0)[1]),
                "Mixed(Program.to((from_bytes, from_bytes)))": lambda: Program.to((Program.from_bytes(cl), Program.from_bytes(cr))),
                "Mixed(Program.to((from_bytes, plain)))": lambda: Program.to((Program.from_bytes(cl), t[1])),
                "Mixed(Plain . Program.wrap(LazyNode))": lambda: Pair2(Plain(t[0]), Program.wrap(w.deser_legacy(cr))),
            })
        for name, mk in wrappers.items():
            obj = mk()
            if rnd.random() < 0.2:
                gc.collect()
            c.evaluations += 1
            try:
                lazy = w.clvm_tree_to_lazy_node(obj)
                back = w.deser_2026(w.ser_2026(lazy))
                got = R.ser(walk(back))
                direct = R.ser(walk(lazy))
            except Exception as e:  # noqa
                c.violation("clvm_tree_to_lazy_node-raised", {"case": i}, {"wrapper": name, "tree": classic.hex()[:600], "error": repr(e)})
                continue
            c.count("wrapper:" + name)
            fresh_children = name.startswith("LazyNode") or name.startswith("Fresh") or "wrap(LazyNode" in name or name.startswith("Mixed")
            if fresh_children and count_nodes(t) >= 50:
                c.nontrivial(name, classic)
                if len(c.samples) < 3:
                    c.sample({"wrapper": name, "tree": classic.hex()[:300], "nodes": count_nodes(t)})
            if got != classic or direct != classic:
                c.violation("clvm_tree_to_lazy_node-changes-tree/" + name.split("(")[0], {"case": i},
                            {"wrapper": name, "tree": classic.hex()[:1200], "round_trip": got.hex()[:1200], "nodes": count_nodes(t)})
    return c.finish()


# ---------------------------------------------------------------- C28

def main_c28():
    import clvm_rs.clvm_rs as w
    from clvm_rs import Program
    from clvm_rs.ser import sexp_to_bytes, sexp_from_stream
    from clvm_rs.casts import int_to_bytes, int_from_bytes
    import clvm_rs.de as de
    c = Checker("C28")
    rnd = random.Random(c.args.seed * 104729 + c.args.shard)

    def py_decode(blob):
        try:
            f = io.BytesIO(blob)
            n = sexp_from_stream(f, lambda a, b: (a, b), lambda a: bytes(a))
            return {"ok": R.ser(n).hex()}, f.tell()
        except (ValueError, AssertionError) as e:
            return {"err": str(e)}, None

    for rec in c.records():
        k = rec["kind"]
        if k == "deser":
            c.evaluations += 1
            blob = bytes.fromhex(rec["blob"])
            got, consumed = py_decode(blob)
            exp = rec["legacy"]
            if isinstance(exp.get("ok"), dict):
                continue
            if ("ok" in got) != ("ok" in exp) or ("ok" in got and got["ok"] != exp["ok"]):
                sig = "sexp_from_stream-differs-from-rust"
                if "ok" in got and "err" in exp and blob and any(blob[i] == 0xFE for i in range(len(blob))):
                    sig += "/0xfe-length-prefix"
                c.violation(sig, rec, {"python": got, "rust": exp})
            if "ok" in exp:
                c.nontrivial("deser", rec["blob"])
            c.count("stream_decode_" + ("accepted" if "ok" in exp else "rejected"))
            # the pure-python triple parser (native import disabled) vs the native one
            if "ok" in exp and len(blob) < 3000:
                native = de.deserialize_as_tree
                try:
                    nat = de.deserialize_as_tuples(blob, 0, True)
                    de.deserialize_as_tree = None
                    pure = de.deserialize_as_tuples(blob, 0, True)
                except Exception as e:  # noqa
                    pure = nat = None
                    c.violation("triple-parser-raised", rec, {"error": repr(e)})
                finally:
                    de.deserialize_as_tree = native
                if pure is not None and ([tuple(x) for x in pure[0]] != [tuple(x) for x in nat[0]] or [bytes(h) for h in pure[1]] != [bytes(h) for h in nat[1]]):
                    c.violation("pure-python-triple-parser-differs-from-native", rec, {})
                c.count("triple_parser_cases")
        elif k == "ser":
            c.evaluations += 1
            tree = R.deser(bytes.fromhex(rec["tree"]))[0]
            out = sexp_to_bytes(Program.to(tree)).hex()
            if not rec["legacy"].startswith("ERR:") and out != rec["legacy"]:
                c.violation("sexp_to_bytes-differs-from-rust", rec, {"python": out[:400], "rust": rec["legacy"][:400]})
            c.nontrivial("ser", rec["tree"])
            c.count("serializer_cases")
            # the same tree arriving through every constructor the wheel offers (classic, back-reference and 2026
            # blobs, cursor and stream parsers), serialised alone, through stream() and embedded in another tree
            if not rec["legacy"].startswith("ERR:") and len(rec["legacy"]) < 40000:
                legacy = bytes.fromhex(rec["legacy"])
                makers = {"from_bytes(classic)": lambda: Program.from_bytes(legacy),
                          "fromhex(classic)": lambda: Program.fromhex(rec["legacy"]),
                          "parse(classic)": lambda: Program.parse(io.BytesIO(legacy)),
                          "from_bytes_with_cursor(classic)": lambda: Program.from_bytes_with_cursor(legacy, 0)[0]}
                if not rec["backrefs"].startswith("ERR:"):
                    br = bytes.fromhex(rec["backrefs"])
                    makers["from_bytes(backrefs)"] = lambda: Program.from_bytes(br)
                    makers["from_bytes_backrefs"] = lambda: Program.from_bytes_backrefs(br)
                    if br != legacy:
                        c.count("compressed_blob_differs_from_classic")
                if not rec["s2026"].startswith("ERR:"):
                    s26 = bytes.fromhex(rec["s2026"])
                    makers["from_bytes(2026)"] = lambda: Program.from_bytes(s26)
                    makers["from_bytes_2026"] = lambda: Program.from_bytes_2026(s26)
                for name, mk in makers.items():
                    try:
                        pr = mk()
                        alone = bytes(pr)
                        f = io.BytesIO()
                        pr.stream(f)
                        emb = sexp_to_bytes(Program.to((pr, pr)))
                        th = pr.tree_hash().hex()
                    except Exception as e:  # noqa
                        c.violation("program-constructor-raised", rec, {"constructor": name, "error": repr(e)})
                        continue
                    c.count("constructor:" + name)
                    if alone != legacy or f.getvalue() != legacy or emb != b"\xff" + legacy + legacy or th != rec["tree_hash"]:
                        c.violation("sexp_to_bytes-differs-from-rust/program-built-by-" + name.split("(")[0], rec,
                                    {"constructor": name, "bytes": alone.hex()[:300], "stream": f.getvalue().hex()[:300], "embedded": emb.hex()[:300],
                                     "rust": rec["legacy"][:300], "tree_hash": th, "rust_tree_hash": rec["tree_hash"]})
        elif k == "int":
            c.evaluations += 1
            v = int(rec["value"])
            if int_to_bytes(v).hex() != rec["rust_bytes"]:
                c.violation("int_to_bytes-differs-from-rust", rec, {"python": int_to_bytes(v).hex(), "rust": rec["rust_bytes"]})
            if int_from_bytes(bytes.fromhex(rec["raw"])) != int(rec["rust_value_of_raw"]):
                c.violation("int_from_bytes-differs-from-rust", rec, {"python": int_from_bytes(bytes.fromhex(rec["raw"]))})
            c.nontrivial("int", rec["value"])
            c.count("int_cases")
    # boundary atoms for the serializer (python generated, Rust serializer through the wheel)
    for n in [0, 1, 0x3F, 0x40, 0x1FFF, 0x2000, 0xFFFFF, 0x100000, 0x100001]:
        if c.args.shard != n % 16:
            continue
        for first in (0x00, 0x7F, 0x80):
            a = bytes([first]) * n
            c.evaluations += 1
            py = sexp_to_bytes(Program.to(a))
            ru = w.ser_legacy(w.clvm_tree_to_lazy_node(Plain(a)))
            c.count("boundary_atoms")
            if py != ru:
                c.violation("sexp_to_bytes-differs-from-rust", {"case": n}, {"atom_len": n, "python_prefix": py[:8].hex(), "rust_prefix": ru[:8].hex()})
    # curry / uncurry / curry_hash / running a curried program
    ncurry = 300 if c.args.tier == "quick" else 20000
    mods = [Program.to(R.deser(bytes.fromhex(h))[0]) for h in (
        "ff10ff02ff0580",          # (+ 2 5)
        "ff04ff02ffff04ff05ff808080",  # (c 2 (c 5 ()))
        "ff0bff02ff0580",          # (sha256 2 5)
        "01",                      # 1 -> whole env
        "ff0eff02ff05ff0b80",      # (concat 2 5 11)
    )]
    for i in range(ncurry):
        if c.time_up(3.0):
            c.count("curry_cases_not_run_time_budget", ncurry - i)
            break
        mod = rnd.choice(mods)
        nargs = rnd.randrange(0, 4)
        args = [gen_tree(rnd, rnd.choice([1, 2, 5]), share=False) if rnd.random() < 0.3 else bytes(rnd.getrandbits(8) for _ in range(rnd.choice([0, 1, 2, 32]))) for _ in range(nargs)]
        rest = [bytes([rnd.randrange(1, 100)]) for _ in range(rnd.randrange(0, 3))]
        c.evaluations += 1
        curried = mod.curry(*args)
        # curry_hash == tree hash of the curried program
        ch = mod.curry_hash(*[Program.to(a).tree_hash() for a in args])
        if ch != curried.tree_hash() or curried.tree_hash() != R.tree_hash(walk(curried)):
            c.violation("curry_hash-differs-from-tree-hash", {"case": i}, {"mod": bytes(mod).hex(), "args": [R.ser(a).hex() for a in args]})
        # uncurry inverts curry
        m2, a2 = curried.uncurry()
        if bytes(m2) != bytes(mod) or a2 is None or [bytes(x) for x in a2] != [R.ser(a) for a in args]:
            c.violation("uncurry-does-not-invert-curry", {"case": i}, {"mod": bytes(mod).hex(), "args": [R.ser(a).hex() for a in args]})
        # running the curried program == running the module with the arguments prepended
        def run(p, env):
            try:
                cost, r = p.run_with_cost(env, 10_000_000)
                return ("ok", bytes(r).hex())
            except Exception as e:  # noqa
                return ("err", str(e.args[0]) if e.args else repr(e))
        env_tail = Program.to(rest)
        full_env = Program.to(list(args) + rest) if True else None
        r1 = run(curried, env_tail)
        r2 = run(mod, full_env)
        if r1 != r2:
            c.violation("curried-run-differs", {"case": i}, {"mod": bytes(mod).hex(), "curried": r1, "direct": r2})
        c.count("curry_cases")
        c.nontrivial("curry", bytes(curried))
        # near misses: uncurry is a partial inverse -- whenever it reports (mod, args) for ANY program P, currying
        # mod with args must give back exactly P. One node of the curried form is replaced at a time (keywords,
        # the terminating 1, nil terminators, an argument wrapper) and extra elements are appended.
        ct = walk(curried)
        subs = [b"", b"\x01", b"\x02", b"\x03", b"\x04", b"\x05", b"\x0c", (b"\x01", b"\x01")]

        def positions(t, path=()):
            yield path
            if isinstance(t, tuple):
                yield from positions(t[0], path + (0,))
                yield from positions(t[1], path + (1,))

        def replace_at(t, path, new):
            if not path:
                return new
            l, r = t
            return (replace_at(l, path[1:], new), r) if path[0] == 0 else (l, replace_at(r, path[1:], new))

        pos = [pth for pth in positions(ct) if len(pth) <= 2 * (len(args) + 3)]
        for _ in range(6):
            pth = rnd.choice(pos)
            mutated = replace_at(ct, pth, rnd.choice(subs))
            if mutated == ct:
                continue
            pm = Program.to(mutated)
            c.evaluations += 1
            try:
                m3, a3 = pm.uncurry()
            except Exception as e:  # noqa
                c.violation("uncurry-raised", {"case": i}, {"program": R.ser(mutated).hex(), "error": repr(e)})
                continue
            if a3 is None:
                c.count("near_miss_not_reported_as_curried")
                continue
            c.count("near_miss_reported_as_curried")
            try:
                back = bytes(m3.curry(*a3))
            except Exception as e:  # noqa
                back = repr(e).encode()
            if back != R.ser(mutated):
                c.violation("uncurry-accepts-a-program-that-curry-does-not-produce", {"case": i},
                            {"program": R.ser(mutated).hex(), "mod": bytes(m3).hex(), "args": [bytes(x).hex() for x in a3], "curry_of_result": back.hex()[:400]})
    return c.finish()


if __name__ == "__main__":
    which = sys.argv[1]
    sys.argv.pop(1)
    sys.setrecursionlimit(20000)
    sys.exit({"C26": main_c26, "C27": main_c27, "C28": main_c28}[which]())
