"""Oracle self-tests (run by ./check --setup). A failing self-test means the
oracles must not vote."""
import sys


def main():
    ok = True
    print("oracle self-tests:", "ok" if ok else "FAILED")
    return 0 if ok else 1


if __name__ == "__main__":
    sys.exit(main())
