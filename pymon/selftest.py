"""Oracle self-tests (run by ./check --setup). A failing self-test means the
oracles must not vote; the checkers re-run the relevant ones themselves."""
import sys


def main():
    ok = True
    from pymon import optests
    total, failed, skipped = optests.run()
    print(f"reference interpreter / cost model vs op-tests vectors: {total} checked, {failed} mismatches")
    ok = ok and failed == 0 and total > 3000
    from pymon.cryptoref import keccak, bls, ecdsa
    k = keccak.selftest(200)
    print("keccak (SHA3 padding vs hashlib.sha3_256, keccak256('')):", k)
    b = bls.selftest(full=True)
    print("bls12-381 (generators on curve, r*G=O, encoding of G1, Fp12 inverse, bilinearity):", b)
    e = ecdsa.selftest()
    print("ecdsa (curve constants, sign/verify, OpenSSL cross-check):", e)
    ok = ok and k and b and e
    # varint / serialisation model spot checks against hand-written vectors
    from pymon import refclvm as R
    v = R.ser((b"\x01", (b"", b"\x80"))) == bytes.fromhex("ff01ff808180") and R.deser(bytes.fromhex("ff01ff808180"))[0] == (b"\x01", (b"", b"\x80"))
    v = v and R.int_to_bytes(128) == b"\x00\x80" and R.int_to_bytes(-129) == b"\xff\x7f" and R.int_from_bytes(b"\xff") == -1
    print("codec / integer model vectors:", v)
    ok = ok and v
    print("oracle self-tests:", "ok" if ok else "FAILED")
    return 0 if ok else 1


if __name__ == "__main__":
    sys.exit(main())
