"""Validates pymon/refclvm.py against the repository's own operator vectors
(op-tests/*.txt, "tests ported from clvm").  No Rust code is involved: this is a
check of the oracle.  Run by `./check --setup` (pymon.selftest) and before the
C01/C10 checkers vote."""
import os, sys
from pymon import refclvm as R

KEYWORDS = {
    "q": 1, "a": 2, "i": 3, "c": 4, "f": 5, "r": 6, "l": 7, "x": 8, "=": 9, ">s": 10, "sha256": 11, "substr": 12, "strlen": 13,
    "concat": 14, "+": 16, "-": 17, "*": 18, "/": 19, "divmod": 20, ">": 21, "ash": 22, "lsh": 23, "logand": 24, "logior": 25,
    "logxor": 26, "lognot": 27, "point_add": 29, "pubkey_for_exp": 30, "not": 32, "any": 33, "all": 34, "softfork": 36, "coinid": 48,
    "modpow": 60, "%": 61, "keccak256": 62, "sha256tree": 63,
}
UNKNOWN = {"unknown": b"\x00", "unknown_add": b"\x40", "unknown_mul": b"\x80", "unknown_concat": b"\xc0",
           "unknown_x2": b"\x01\x00", "unknown_add_x2": b"\x01\x40", "unknown_mul_x2": b"\x01\x80", "unknown_concat_x2": b"\x01\xc0"}

METHOD = {"i": "op_if", "c": "op_cons", "f": "op_first", "r": "op_rest", "l": "op_listp", "x": "op_raise", "=": "op_eq", "sha256": "op_sha256",
          "+": "op_add", "-": "op_subtract", "*": "op_multiply", "/": "op_div", "divmod": "op_divmod", "%": "op_mod", "substr": "op_substr",
          "strlen": "op_strlen", "concat": "op_concat", ">": "op_gr", ">s": "op_gr_bytes", "logand": "op_logand", "logior": "op_logior",
          "logxor": "op_logxor", "lognot": "op_lognot", "ash": "op_ash", "lsh": "op_lsh", "not": "op_not", "any": "op_any", "all": "op_all",
          "coinid": "op_coinid", "modpow": "op_modpow", "keccak256": "op_keccak256", "sha256tree": "op_sha256tree"}


def pop_token(s):
    s = s.strip()
    if s.startswith('"'):
        j = s.find('"', 1)
        return s[:j + 1].strip(), s[j + 1:].strip()
    if s[:1] in ("(", ")"):
        return s[:1], s[1:].strip()
    sp = s.find(" ")
    cl = s.find(")")
    cands = [x for x in (sp, cl) if x >= 0]
    pos = min(cands) if cands else len(s)
    return s[:pos].strip(), s[pos:].strip()


def parse_atom(v):
    if v == "0":
        return b""
    if v.startswith("0x"):
        return bytes.fromhex(v[2:])
    if v.startswith('"'):
        return v[1:-1].encode()
    try:
        return R.int_to_bytes(int(v, 10))
    except ValueError:
        pass
    v = v.lstrip("#")
    if v in UNKNOWN:
        return UNKNOWN[v]
    table = dict(KEYWORDS)
    table.update({"g1_add": 29, "g1_subtract": 49, "g1_multiply": 50, "g1_negate": 51, "g2_add": 52, "g2_subtract": 53, "g2_multiply": 54,
                  "g2_negate": 55, "g1_map": 56, "g2_map": 57, "bls_pairing_identity": 58, "bls_verify": 59, "secp256k1_verify_64": 64,
                  "secp256r1_verify_65": 65})
    if v == "secp256k1_verify":
        return b"\x13\xd6\x1f\x00"
    if v == "secp256r1_verify":
        return b"\x1c\x3a\x8f\x00"
    return bytes([table[v]])


def parse_list(v):
    v = v.strip()
    first, rest = pop_token(v)
    if first == "" or first == ")":
        return b"", rest
    if first == "(":
        head, r2 = parse_list(rest)
        tail, r3 = parse_list(r2)
        return (head, tail), r3
    if first == ".":
        node, r2 = parse_exp(rest)
        end, r3 = pop_token(r2)
        assert end == ")"
        return node, r3
    head = parse_atom(first)
    tail, r2 = parse_list(rest)
    return (head, tail), r2


def parse_exp(v):
    first, rest = pop_token(v)
    if first == "(":
        return parse_list(rest)
    return parse_atom(first), rest


FILES = [("test-core-ops", False), ("test-core-ops-v2", True), ("test-more-ops", False), ("test-more-ops-v2", True),
         ("test-unknown-ops", False), ("test-unknown-ops-v2", True), ("test-modpow", False), ("test-modpow-v2", True),
         ("test-sha256", False), ("test-sha256-v2", True), ("test-sha256tree", False), ("test-sha256tree-v2", True),
         ("test-sha256tree-hash", False), ("test-sha256tree-hash-v2", True), ("test-keccak256", False), ("test-keccak256-v2", True),
         ("test-keccak256-generated", False), ("test-keccak256-generated-v2", True)]


def run(repo="/repo", verbose=False):
    total = failed = skipped = 0
    sys.setrecursionlimit(100000)
    for name, new in FILES:
        path = os.path.join(repo, "op-tests", name + ".txt")
        if not os.path.exists(path):
            continue
        for line in open(path):
            line = line.strip()
            if not line or line.startswith(";"):
                continue
            lhs, rhs = line.split("=>")
            opname, args_s = pop_token(lhs)
            if opname not in METHOD and opname not in UNKNOWN:
                skipped += 1
                continue
            args, rest = parse_list(args_s)
            assert rest == "", (line, rest)
            ref = R.Ref(new=new)
            total += 1
            try:
                if opname in UNKNOWN:
                    cost, res = ref.unknown_op(UNKNOWN[opname], args)
                else:
                    cost, res = getattr(ref, METHOD[opname])(args)
                got = (res, cost)
            except R.EvalError:
                got = "FAIL"
            rhs = rhs.strip()
            if rhs == "FAIL":
                exp = "FAIL"
            else:
                val_s, cost_s = rhs.rsplit("|", 1)
                val, r2 = parse_exp(val_s.strip())
                exp = (val, int(cost_s.strip()))
            if got != exp:
                failed += 1
                if verbose or failed <= 12:
                    g = got if got == "FAIL" else (R.ser(got[0]).hex()[:80], got[1])
                    e = exp if exp == "FAIL" else (R.ser(exp[0]).hex()[:80], exp[1])
                    print(f"MISMATCH {name}: {line[:140]}\n    reference -> {g}\n    vector    -> {e}")
    return total, failed, skipped


if __name__ == "__main__":
    t, f, s = run(verbose="-v" in sys.argv)
    print(f"op-test vectors: {t} checked, {f} mismatches, {s} skipped (operators outside the reference)")
    sys.exit(1 if f else 0)
