"""Per-property configuration of the driver (`./check`)."""

REL = {"quick": ["rel"], "thorough": ["rel"]}

COMMON_ASSUMPTIONS = [
    "runtime monitoring: the verdict covers only the executions produced by this run",
    "harness generators, reference models and comparison code are trusted",
]

PROG = ("Typed random ChiaDialect programs (grammar over all operators, env paths incl. leading-zero paths, ((X) . raw) forms, "
        "recursion templates, softfork guards with measured exact costs and wrong/malformed ones, unknown opcodes, structural mutations) ")

PROPS = {
    "C01": {
        "variants": REL,
        "log": True,
        "py": "pymon.c01check",
        "budget_s": (25, 300),
        "min_nontrivial": {"quick": 2000, "thorough": 20000},
        "must_observe": ["log:computed_operator_programs"],
        "rule": "Typed random programs over the classic operator set (opcodes 1-36 without 29/30; non-canonical ints, leading-zero paths, ((X) . raw) forms, recursion/accumulator loops, unknown multi-byte opcodes, softfork guards, structural mutations) and "
                "directed interpreter corner cases (incl. zero-length atoms that are not the inline nil -- empty substring views, empty concat -- flowing into i/not/any/all/=/l/strlen/+/sha256/concat/a/c/f/logand/substr/>/>s), programs built at run time whose operator atom (and an inner quote) is produced by substr / concat / arithmetic for every classic opcode (heap atoms, views, computed small integers instead of inline literals), run by the real interpreter with default flags at budget 5e7 and at {C, C-1, C+1, random}; every logged run is replayed by pymon/refclvm.py (independent interpreter after the historical Python clvm with the named "
                "adapters div-floor, softfork-guard, u64-cost) and success/failure, cost and result bytes are compared. The reference must first reproduce the repository's 6000+ op-test vectors. Programs that execute an opcode assigned after the classic set are skipped. "
                "Disagreements that exist only under a rule known from memory (`recalled`: nil terminator of the inner list in ((X . t)...), as_iter failure on improper raw operand lists) are reported as UNCORROBORATED-DIVERGENCE, not as violations. "
                "Non-trivial: reference succeeds and applied >=2 operators.",
        "assumptions": COMMON_ASSUMPTIONS + ["the Python clvm package is not installed; the reference is an independent re-implementation validated against op-tests/*.txt"],
    },
    "C02": {
        "variants": REL,
        "budget_s": (30, 300),
        "min_nontrivial": {"quick": 500, "thorough": 5000},
        "must_observe": ["exhaustive_budget_sweeps", "exempt_guard_entered", "cost_above_2^62", "failing_runs_swept_over_guard_windows"],
        "rule": PROG + "x random flag sets, plus directed programs whose last operation or an operator-internal cost check crosses the budget and unknown-extension softforks with declared costs around 2^62, 2^63 and 2^64 (probed at u64::MAX instead of the 5e7 stand-in). "
                "Each program is run at budget 0 (cost C) and then at {C, C+1, 2C, u64::MAX, random>=C} (must be identical) and {C-1, C-2, C/2, 1, random<C} "
                "(must be CostExceeded); every budget 1..C+2 exhaustively when C<=4000; when the GuardEnter hook reports a cost-exempt guard and the flags contain NEW_COST_MODEL (nothing else may grandfather a guard) the smallest "
                "succeeding budget is located by bisection and monotonicity asserted around it. A run that fails at budget 0 must fail at every budget: {1, 1000, random, u64::MAX-1, u64::MAX}, every budget inside the window [entry cost-2, entry cost+declared+2] of every softfork guard the run entered (GuardEnter hook events; a guard temporarily replaces the budget), and 1..600 for a sixteenth of the other failing runs. Non-trivial: succeeded at 0 with C>=100 and >=6 budgets swept.",
        "assumptions": COMMON_ASSUMPTIONS + ["a guard counts as cost-exempt only if the GuardEnter hook reports it AND the flags contain NEW_COST_MODEL"],
    },
    "C03": {
        "variants": REL,
        "budget_s": (30, 300),
        "min_nontrivial": {"quick": 500, "thorough": 5000},
        "must_observe": ["variant_reencoded", "variant_history", "history_failed_run_with_validated_points", "history_many_substring_views", "reclamation_programs", "path_atoms_of_every_inline_bit_length"],
        "rule": PROG + "and directed operator programs over an env of non-canonical/boundary atoms, environment-path programs of every bit length 1..27 over a 30-deep environment in which every path exists, the directed reclamation programs. Baseline = fresh allocator, new_atom storage. Variants: every atom "
                "re-encoded as forced-heap / substring view / concat result (incl. opcode, keyword, path and terminator atoms and the zero-length heap atom); allocator "
                "pre-populated with random nodes, skewed table shapes (thousands of substring views, pairs or inline atoms, one huge atom), earlier successful and failed runs, runs that validated BLS points, add_validated_g1/g2, checkpoints; re-runs in the "
                "same allocator; plain repeats. Result tree hash, cost and error variant+message must equal the baseline (limit errors excluded). Non-trivial: >=1 variant compared "
                "and the run got past the first path lookup.",
        "assumptions": COMMON_ASSUMPTIONS,
    },
    "C05": {
        "variants": {"quick": ["rel", "nofast", "diag"], "thorough": ["rel", "nofast", "diag"]},
        "log": True,
        "py_multi": "pymon.c05check",
        "budget_s": (25, 300),
        "min_nontrivial": {"quick": 20000, "thorough": 200000},
        "must_observe": ["kind_op", "kind_prog", "kind_path", "log:boundary_rows", "log:carry_list_blocks", "log:sha256_precomputed_rows", "log:path_rows", "log:pre_eval_callbacks", "log:counters_runs"],
        "rule": "The same seeded workload runs in three builds of the library (default, --features no-fastpath, --features counters,pre-eval with an observe-only pre/post-eval callback): (a) + - * > = logand sha256 on every pair (and triples, pairs at every position) of "
                "machine-word boundary integers 0,+-1,+-2^k-1,+-2^k,+-2^k+1 stored inline and forced to the heap, budgets crossing inside the loops; (a') every operand list of length 3 (and a quarter of those of length 4) over 19 values at the byte-length boundaries of inline atoms (carries and sign changes in the middle of a list) through + - * logand logior logxor concat sha256 in both cost models; (b) sha256 (1 n) for n in 0..47 in all spellings/arities; (c) path lookups for every bit length 0..40 x {canonical, "
                "raw magnitude i.e. negative spelling, redundant leading zeros} x {inline, heap} over an environment where every 40-step path exists; (d) random typed programs and random operator calls. Records (result hash, cost, error, atom/pair/heap counts) are compared line by line; "
                "in the diag build run_program_with_counters must additionally equal run_program_with_pre_eval. Non-trivial: successful cases (distinct keys).",
        "assumptions": COMMON_ASSUMPTIONS + ["all three builds execute the identical generator (own PRNG, no dependence on crate features); lock-step is verified on (case, kind, key) for every line"],
    },
    "C06": {
        "variants": REL,
        "budget_s": (25, 300),
        "min_nontrivial": {"quick": 2000, "thorough": 20000},
        "rule": "Direct calls of op_div/op_divmod/op_mod/op_modpow with generated argument lists (0-5 args, zero in both encodings, negatives, redundant leading 0x00/0xff, "
                "operands up to 4000 bytes, pairs at each position, improper tails, all atom representations) under random flag sets F vs F|MALACHITE and budgets, plus typed programs "
                "containing these operators through run_program. Result bytes, cost, error kind and the allocator's atom/pair/heap counts after the call must agree. Non-trivial: the call got past argument parsing.",
        "assumptions": COMMON_ASSUMPTIONS,
    },
    "C07": {
        "variants": REL,
        "budget_s": (25, 300),
        "min_nontrivial": {"quick": 2000, "thorough": 20000},
        "must_observe": ["restriction_turned_success_into_failure"],
        "rule": PROG + "and directed programs at the LIMITS/DISABLE_OP/CANONICAL_INTS/LIMIT_SOFTFORK thresholds. For random base F and restriction subset R (single flags, subsets, all of MEMPOOL_MODE; "
                "LIMIT_HEAP mirrored by a 500,000,000-byte allocator as the wheel does): if F|R succeeds then F must succeed with identical result and cost; if F succeeds then F|RELAXED_BLS must too. "
                "Non-trivial: the restricted run succeeded.",
        "assumptions": COMMON_ASSUMPTIONS,
    },
    "C08": {
        "variants": REL,
        "budget_s": (30, 300),
        "min_nontrivial": {"quick": 500, "thorough": 5000},
        "must_observe": ["guards_entered_in_successful_aware_runs", "successful_runs_with_4byte_secp_opcode"],
        "rule": PROG + "(softfork profile: guards for ext 0/1 with exact measured declared cost, nested/sequential/malformed guards, unknown extensions, valid and corrupted secp triples behind the 4-byte opcodes, extension-only opcodes evaluated after a guard (or a guard tower) has completed in the same run) "
                "run on ChiaDialect(F) and on a harness HidingDialect(F) that maps every extension to Default and routes the two 4-byte secp opcodes to op_unknown; F non-strict without NEW_COST_MODEL. "
                "When the aware run succeeds the hiding run must give the same result, cost and atom/pair/heap counts. Non-trivial: aware run succeeded and entered >=1 guard or contains a 4-byte secp opcode.",
        "assumptions": COMMON_ASSUMPTIONS + ["HidingDialect (harness) is the model of an extension-unaware node"],
    },
    "C09": {
        "variants": REL,
        "log": True,
        "py": "pymon.c09check",
        "budget_s": (25, 300),
        "exhaustive_key": "log:exhaustive_opcodes",
        "min_nontrivial": {"quick": 5000, "thorough": 50000},
        "must_observe": ["log:exhaustive_opcodes", "log:overflow_corner_cases", "log:dialect_neighbourhood_opcodes", "log:product_boundary_cases", "expected_fail:product exceeds 2^32-1", "expected_fail:reserved", "expected_fail:pair argument", "expected_fail:cost", "expected_fail:strict mode"],
        "rule": "EXHAUSTIVE 1- and 2-byte opcodes x 6 argument shapes x both cost models through op_unknown; directed overflow corner (two ~800 KB operands, multiplier chosen so that the true product is >= 2^64); products exactly at, one below and one above 2^32-1 (base costs that divide 3*5*17*257*65537 with the matching multiplier, neighbouring lengths and multipliers); random 1-8 byte opcodes (ffff prefixes, leading zeros, "
                "5/6-byte) x 0-12 atoms incl. multi-MB operands and pairs at each position x budgets x flag sets, through op_unknown, ChiaDialect::op and RuntimeDialect::op (opcodes the dialect assigns are skipped); through both dialects additionally the whole last-byte neighbourhood of the two 4-byte secp opcodes and the adjacent multipliers, every 1-byte opcode and the 2- and 3-byte zero-padded spellings of every byte, each with no arguments, atoms, a valid signature triple and a corrupted one, lenient and strict. Oracle: pymon/c09check.py evaluates the published rule with "
                "unbounded integers: nil + (multiplier+1)*base; failure for empty/ffff/>5-byte opcodes, pair arguments, base > budget, product > 2^32-1, strict mode. Non-trivial: multi-byte opcode or non-empty argument list.",
        "assumptions": COMMON_ASSUMPTIONS,
    },
    "C10": {
        "variants": REL,
        "log": True,
        "py": "pymon.c10check",
        "budget_s": (25, 300),
        "min_nontrivial": {"quick": 5000, "thorough": 50000},
        "must_observe": ["log:program_level_calls", "log:carry_list_calls", "new:sha256tree", "old:sha256tree", "new:modpow", "old:*", "new:bls_verify"],
        "rule": "Every ChiaDialect operator called directly on signature-aware argument lists (sizes 0..MBs, leading zeros, negatives, long lists, DAG arguments and atoms of 1023..1.1M bytes for sha256tree) under {old,new} cost model x {num-bigint, MALACHITE}, plus every operand list of length 3 (and a quarter of length 4) over 19 inline-atom boundary values through + - * logand logior logxor, plus (op (q . a)...) through run_program. For every "
                "SUCCESSFUL call pymon/c10check.py recomputes the documented cost from argument sizes / python-int accumulators / result size (refclvm operator formulas, validated against 6000+ op-test vectors; size-only formulas for BLS/secp) and compares it with the charged cost; "
                "program-level calls add the closed-form overhead 1+20n. Non-trivial: every successful call with a distinct (operator, model, argument-size) key.",
        "assumptions": COMMON_ASSUMPTIONS + ["where docs/cost-model.md and the source comments disagree (new-model add/sub and logand/ior/xor use atom length, not limbs, for the argument) the source + v2 vectors are taken as the documented formula"],
    },
    "C11": {
        "variants": REL,
        "budget_s": (25, 300),
        "min_nontrivial": {"quick": 2000, "thorough": 20000},
        "rule": PROG + "and direct calls of every ChiaDialect operator on signature-aware argument lists, each under F and F|NEW_COST_MODEL. When both succeed the result trees must be identical. "
                "Non-trivial: both succeed and the costs differ.",
        "assumptions": COMMON_ASSUMPTIONS,
    },
    "C12": {
        "variants": {"quick": ["rel", "dbg"], "thorough": ["rel", "dbg", "miri"]},
        "budget_s": (25, 300),
        "min_nontrivial": {"quick": 2000, "thorough": 20000},
        "must_observe": ["restores", "maybe_restore_replace", "maybe_restore_noreplace", "substr_of_inline_atom", "substr_of_heap_atom"],
        "rule": "Random histories (10-2000 operations) over the public allocator API: new_atom, new_small_number, new_number/new_malachite_number/new_u64/new_i64, new_pair, new_substr (valid and invalid bounds, "
                "inline and heap parents), new_concat (0-4 terms), new_g1/new_g2, add_ghost_atom/pair, checkpoint/restore_checkpoint (LIFO, also repeated and multi-level), transparent checkpoints, "
                "maybe_restore_with_node. A reference model (atoms start at 2, heap at 1; +1 atom per atom op; +len heap except substr +0; concat +new_size; pair +1; full restore -> values at checkpoint; "
                "transparent/value-preserving restore unchanged; failed op unchanged) is compared with atom_count/pair_count/heap_size after EVERY operation. Non-trivial: history contains a restore and a substring.",
        "assumptions": COMMON_ASSUMPTIONS + ["API preconditions respected: LIFO checkpoints, nodes created after a restored checkpoint are dead, concat size equals the sum of its terms"],
    },
    "C13": {
        "variants": {"quick": ["rel", "dbg", "diag"], "thorough": ["rel", "dbg", "diag"]},
        "budget_s": (30, 300),
        "min_nontrivial": {"quick": 2000, "thorough": 20000},
        "must_observe": ["alloc_failed_OutOfMemory", "alloc_failed_TooManyAtoms", "alloc_failed_TooManyPairs", "gc_runs_compared_with_plain_runs", "per_step_count_samples", "program_sweeps_heap", "program_sweeps_atoms", "program_sweeps_pairs", "decoder_sweeps"],
        "rule": "(1) Lock-step histories: the same random allocator history runs on an allocator with a 1-600 byte heap limit and atom/pair counters pre-loaded (add_ghost_*) to 0-40 from 62,500,000, and on an unlimited shadow; "
                "the shadow's measured deltas predict for every operation whether the limited one must succeed or fail and with which error; after every op counts<=caps, failed ops leave counts and all live node contents unchanged. "
                "(2) Headroom sweeps of whole programs: for heap/atoms/pairs every room d in 0..need+2 is run; success set must be upward closed, failures must carry the matching error, successes equal the unlimited result, and "
                "for guard-free programs the minimal room equals the final delta; the swept programs include the directed set that forces every outcome of a reclaiming restore, and a run with ENABLE_GC must report the same final counts as the same run without it "
                "(so the counts the caps are enforced on are the real usage; in the diagnostics build (pre-eval feature) an observe-only pre/post-eval callback samples the counts at every evaluation step of every limited run and the peak must stay within the caps, which also covers allocations that a softfork guard later rolls back; runs with an inline-substring copy are left to the recorded C12/C04 finding). (3) node_from_bytes_backrefs and the legacy decoder swept together around the pair cap. Non-trivial: a sweep/history saw both a limit failure and a success next to the cap.",
        "assumptions": COMMON_ASSUMPTIONS + ["'would exceed the cap' is judged with the allocator's own per-operation deltas measured on an unlimited twin (the accounting itself is C12's subject)"],
    },
    "C14": {
        "variants": {"quick": ["rel", "dbg"], "thorough": ["rel", "dbg"]},
        "budget_s": (25, 300),
        "exhaustive_key": "exhaustive_byte_strings",
        "min_nontrivial": {"quick": 2000, "thorough": 20000},
        "must_observe": ["exhaustive_byte_strings", "restores", "maybe_restore_replace"],
        "rule": "Exhaustive: every byte string of length <=2 (quick) / <=3 (thorough) through new_atom and a forced-heap copy: atom/atom_len/small_number/number/fits_in_small_atom/atom_eq and inline-iff-small; every integer in [-70000,70000], "
                "+-2^k+-1 (k<=512) and random values up to 4 KiB through new_number/new_malachite_number/new_u64/new_i64 against an independent minimal two's-complement encoder. Histories as in C12 with a content model: after every restore, "
                "every failed op and every 16 ops ALL live nodes are re-read (atom, atom_len, sexp, small_number, number, malachite_number) and random atom pairs of all representation combinations go through atom_eq. "
                "Non-trivial: byte strings that are negative or non-canonical; integers outside the inline range; histories with restore+substring.",
        "assumptions": COMMON_ASSUMPTIONS,
    },
    "C15": {
        "variants": REL,
        "budget_s": (30, 300),
        "min_nontrivial": {"quick": 2000, "thorough": 20000},
        "must_observe": ["converse_decodable_and_canonical", "boundary_atom_len_0x2000", "boundary_atom_len_0x100000", "boundary_atom_len_0x8000000"],
        "rule": "Trees/DAGs of all generator shapes (random, 100k-deep spines, doubling DAGs, wide lists, repeats) with atoms at every length-prefix boundary (0x3f/0x40, 0x1fff/0x2000, 0xfffff/0x100000 and, as single directed atoms, "
                "0x7ffffff/0x8000000/0x8000001 = 128 MiB), materialised with random atom representations: node_to_bytes_limit must equal the harness's independent serialiser, decode to the model tree, pass is_canonical_serialization; "
                "trusted/untrusted length functions (also with trailing bytes) and the ObjectCache length must equal the byte count. Converse: mutated serialisations and noise that decode AND are judged canonical must re-serialise to the input. "
                "Thorough tier: write_atom prefixes for 2^32..2^34 byte slices via a counting sink. Non-trivial: tree has a pair or a boundary-size atom.",
        "assumptions": COMMON_ASSUMPTIONS + ["an Allocator cannot hold atoms >= 4 GiB; that part of the quantifier is only reached at the write_atom level"],
    },
    "C16": {
        "variants": {"quick": ["rel", "asan"], "thorough": ["rel", "asan", "vg"]},
        "budget_s": (40, 320),
        "total": True,
        "exhaustive_key": "exhaustive_all_bytes",
        "min_nontrivial": {"quick": 5000, "thorough": 50000},
        "must_observe": ["exhaustive_all_bytes", "exhaustive_dense_alphabet", "length_prefix_boundary_atoms", "parse_triples_flag_and_chunking_compared", "accepted_by_all", "rejected_by_all"],
        "rule": "EXHAUSTIVE: every byte string of length <=2 (quick) / <=3 (thorough) and every string over the dense token alphabet {ff,fe,80,00,01,7f,81,bf,c0,fb,fc,fd} up to length 6 (quick) / 7 (thorough); then atoms of every length at and around the length-prefix boundaries (0x3f/0x40, 0x1fff/0x2000, 0xfffff/0x100000) written with every prefix width that can hold the length (minimal and over-long) with the payload present, alone and inside a pair; valid serialisations mutated at token level, "
                "inflated length prefixes, 100k-deep nesting and noise. Per input: node_from_stream, parse_triples(hashes on) and tree_hash_from_stream must all accept or all reject, consume the same length, describe the same tree (rebuilt from the triples) and "
                "carry the model tree hash for every node; parse_triples without hashes, and with/without hashes through a reader that returns 1-5 bytes per call, must accept the same inputs, return the same triples and consume the same length; peak heap requested per decoder (counting global allocator) <= 2 MiB + 64*len; is_canonical_serialization == (whole input consumed AND re-serialisation reproduces it). ASan build repeats the workload. "
                "Non-trivial: input accepted by the decoders.",
        "assumptions": COMMON_ASSUMPTIONS,
    },
    "C17": {
        "variants": {"quick": ["rel"], "thorough": ["rel"]},
        "budget_s": (30, 300),
        "min_nontrivial": {"quick": 2000, "thorough": 20000},
        "must_observe": ["salted_serializations", "bytes_saved_by_backrefs"],
        "rule": "Trees with many repeated sub-trees at varying depths, repeated big atoms, and 'threshold' trees (a repeated sub-tree of serialized length 2..8 at stack distance 0..70, i.e. where a back-reference stops paying and where paths cross 1->2->3 byte "
                "encodings). node_to_bytes_backrefs output must decode (node_from_bytes_backrefs) to the model tree, be canonical, be no longer than the classic serialisation, re-serialise identically after decoding, and be byte-identical under 8 hash salts forced "
                "through the verif-hooks salt override (0, !0, single-bit differences, ...). Non-trivial: output is shorter than classic (a back-reference was emitted).",
        "assumptions": COMMON_ASSUMPTIONS + ["salt override hook pins RandomState/TreeCache salts"],
    },
    "C18": {
        "variants": {"quick": ["rel", "dbg", "asan"], "thorough": ["rel", "dbg", "asan", "vg"]},
        "budget_s": (40, 320),
        "total": True,
        "min_nontrivial": {"quick": 5000, "thorough": 50000},
        "must_observe": ["exhaustive_dense_alphabet", "accepted_by_all", "rejected_inputs_with_backref_token"],
        "rule": "EXHAUSTIVE strings over the dense token alphabet up to length 6 (the release layer of the thorough tier adds a seed-chosen eighth of the 36M strings of length 7); valid back-reference serialisations whose paths are rewritten (into the stack itself, into materialised stack lists, into atoms, past the end, leading zero bytes, "
                "empty path), inserted fresh back-references, byte-level mutations. Per input: node_from_bytes_backrefs and node_from_bytes_backrefs_old must both accept or reject, give identical trees and identical pair_count; serialized_length_from_bytes must accept "
                "exactly those inputs and its value L must be the consumed length (prefix of length L decodes to the same tree, prefix L-1 does not decode). dbg build catches ghost-pair debug_asserts, ASan/Miri memory errors. Non-trivial: accepted input containing a 0xfe token.",
        "assumptions": COMMON_ASSUMPTIONS,
    },
    "C26": {
        "variants": REL,
        "wheel": True,
        "log": True,
        "py": "pymon.wheelmon C26",
        "budget_s": (25, 300),
        "min_nontrivial": {"quick": 5000, "thorough": 50000},
        "must_observe": ["run_ok", "run_err", "run_undecodable", "deser_accepted", "deser_rejected", "wheel_tree_hashes"],
        "rule": "The Rust harness logs, for generated cases, what the Rust core does: run_program exactly as wheel/src/api.rs sets it up (flags = from_bits_truncate(word) for arbitrary 32-bit words incl. unknown bits, 500,000,000-byte allocator iff LIMIT_HEAP, both inputs decoded with "
                "node_from_bytes, budgets incl. tiny ones), node_to_bytes / node_to_bytes_backrefs / serialize_2026 of generated trees, and all decoders on valid, mutated, exhaustive-short and random blobs. pymon/wheelmon.py calls the freshly built wheel on the same inputs: "
                "cost, result tree (LazyNode walked through .atom/.pair and re-serialised by an independent python serialiser), error message text, ser_*/deser_*/deser_auto/serialized_length outputs and sha256_treehash of LazyNode/Program/CLVMTree objects must equal the Rust log. "
                "Non-trivial: decodable run cases, serialisation cases, accepted decoder inputs.",
        "assumptions": COMMON_ASSUMPTIONS + ["the wheel is built without maturin (cargo build -p clvm_rs, .so copied next to wheel/python/clvm_rs)"],
    },
    "C27": {
        "variants": {"quick": [], "thorough": []},
        "wheel": True,
        "py": "pymon.wheelmon C27",
        "py_only": True,
        "budget_s": (60, 480),
        "min_nontrivial": {"quick": 500, "thorough": 5000},
        "must_observe": ["wrapper:Fresh(.pair builds new children)", "wrapper:LazyNode(deser_legacy)", "wrapper:Program.to", "wrapper:CLVMTree", "wrapper:Mixed(LazyNode . LazyNode)", "wrapper:Mixed(Program.to((from_bytes, from_bytes)))"],
        "rule": "Random trees/DAGs (1-250 pair constructions, shared and unshared) wrapped in every storage the wheel ships or accepts: Program.to, plain python objects, CLVMTree, LazyNode from deser_legacy/deser_backrefs/deser_2026 and from a program result, Program.wrap(LazyNode), "
                "Program.wrap(CLVMTree), Program.from_bytes, a harness class whose .pair builds fresh children on every access, and trees whose two halves come from separate deserialisations / program runs (LazyNode pairs, Program.to of two from_bytes Programs, python objects mixed with wrapped LazyNodes); with and without forced gc.collect(). deser_2026(ser_2026(clvm_tree_to_lazy_node(obj))) and the returned LazyNode itself must re-serialise (independent python serialiser) "
                "to the source tree. Non-trivial: storage whose .pair creates fresh children and tree of >=50 nodes.",
        "assumptions": COMMON_ASSUMPTIONS,
    },
    "C28": {
        "variants": REL,
        "wheel": True,
        "log": True,
        "py": "pymon.wheelmon C28",
        "budget_s": (25, 300),
        "min_nontrivial": {"quick": 5000, "thorough": 50000},
        "must_observe": ["stream_decode_accepted", "stream_decode_rejected", "serializer_cases", "int_cases", "curry_cases", "triple_parser_cases", "boundary_atoms", "constructor:from_bytes(backrefs)", "compressed_blob_differs_from_classic", "near_miss_not_reported_as_curried"],
        "rule": "Rust log: classic decoder on every dense-alphabet string up to length 5, long-length-prefix probes, mutated/valid/random blobs; node_to_bytes of generated trees; new_number bytes for every integer in [-40000,40000), word boundaries and random big values. Python side: "
                "sexp_from_stream must accept exactly the inputs node_from_bytes accepts and yield the same tree; sexp_to_bytes == node_to_bytes (plus atoms at every length-prefix boundary up to 1 MiB+1 against ser_legacy), also for the same tree built by every Program constructor (from_bytes of a classic / back-reference / 2026 blob, fromhex, parse, from_bytes_with_cursor, from_bytes_backrefs, from_bytes_2026) and serialised alone, through stream() and embedded in another tree; int_to_bytes/int_from_bytes == Rust; the pure-python triple parser "
                "(native import disabled) == native; curry_hash == tree hash of curry, uncurry(curry(m,a)) == (m,a), for near misses of curried programs (one node replaced: keywords, the terminating 1, nil terminators, wrappers) uncurry may only report (m,a) when m.curry(*a) reproduces the program, and running the curried program == running the module with the arguments prepended. Non-trivial: accepted decoder inputs, serialiser/int/curry cases.",
        "assumptions": COMMON_ASSUMPTIONS + ["the Rust classic serialiser is reached through the wheel's ser_legacy where no Rust log exists (itself checked by C26)"],
    },
    "C29": {
        "variants": REL,
        "budget_s": (30, 300),
        "min_nontrivial": {"quick": 2000, "thorough": 20000},
        "must_observe": ["limit_on_token_boundary"],
        "rule": "Trees incl. threshold trees and atoms at prefix boundaries; for serializations <= 300 bytes EVERY limit 0..=len+1, otherwise every token boundary (cons markers, length prefixes) +-1 plus random limits: node_to_bytes_limit / node_to_bytes_backrefs_limit must "
                "return exactly the unlimited bytes when len<=L and Err(OutOfMemory) otherwise. Non-trivial: a tree whose whole limit sweep was checked.",
        "assumptions": COMMON_ASSUMPTIONS,
    },
    "C19": {
        "variants": {"quick": ["rel", "dbg"], "thorough": ["rel", "dbg", "miri"]},
        "budget_s": (30, 300),
        "min_nontrivial": {"quick": 2000, "thorough": 20000},
        "must_observe": ["salted_histories", "histories_with_undo_then_different_add", "histories_with_repeated_sentinels", "outputs_with_backrefs"],
        "rule": "Random add/undo histories (2-14 steps) of the incremental Serializer: every added tree is built from fresh atoms plus sub-trees of earlier additions (forcing back-references across the cut) and contains the sentinel 0-3 times at random leaf "
                "positions; undo is single- and multi-level with a LIFO stack of undo states, also of the final add, always followed by a different addition. Oracle: (a) after restore() the buffer equals the snapshot taken before the undone add, (b) the done flag "
                "follows a pending-sentinel counter, (c) the finished bytes decode with node_from_bytes_backrefs to the tree assembled by a harness model that substitutes sentinels in pre-order by the retained additions, (d) the whole history replayed under 4 forced "
                "salts yields identical bytes at every step. Non-trivial: history has an undo followed by a different add and the output contains a back-reference.",
        "assumptions": COMMON_ASSUMPTIONS + ["API preconditions respected: undo states used in LIFO order, no add after completion"],
    },
    "C20": {
        "variants": {"quick": ["rel", "asan"], "thorough": ["rel", "asan", "vg"]},
        "budget_s": (30, 300),
        "total": True,
        "min_nontrivial": {"quick": 2000, "thorough": 20000},
        "must_observe": ["cross_decoder_probes", "max_atom_len_probes", "mutated_blob_accepted", "mutated_blob_rejected"],
        "rule": "Round trip: trees of all shapes incl. many distinct atoms of one boundary length (63/64/65 -> group headers around -64) and 55-75 pairs with a late shared sub-tree (pair back-reference indices around -64) at levels {0,1,7,u32::MAX}: strict and lenient "
                "decode == model tree, serialized_length_serde_2026 == blob length (also with trailing bytes), decoding succeeds iff max_atom_len >= largest atom, and the 7 classic/back-reference entry points reject the blob. Robustness: mutated valid blobs "
                "(behind and inside the prefix), prefix+noise, noise, huge counts (2^54 groups/atoms/instructions): no panic, peak heap <= 2 MiB + 256*len + 2*max_atom_len, probe == bytes consumed whenever decoding succeeds. Non-trivial: tree with real sharing / mutated blob that still decodes.",
        "assumptions": COMMON_ASSUMPTIONS + ["max_atom_len values beyond 16 MiB are a caller contract and not exercised"],
    },
    "C21": {
        "variants": {"quick": ["rel"], "thorough": ["rel"]},
        "budget_s": (25, 300),
        "exhaustive_key": "exhaustive_encodings",
        "min_nontrivial": {"quick": 100000, "thorough": 1000000},
        "must_observe": ["exhaustive_encodings", "exhaustive_values", "width_boundary_values", "truncated_inputs", "overlong_encodings_checked", "varint_short_read_comparisons"],
        "rule": "EXHAUSTIVE over every encoding whose prefix declares <=3 bytes (2.1M; the thorough tier adds a seed-chosen sixteenth of the 268M four-byte encodings), strict and lenient, with a trailing byte that must not be consumed; encoder exhaustive for |v| < 2^20 (quick) / 2^23 (thorough), every "
                "width boundary +-2^(7k-1)+-{0,1,2}, random 56-bit values; for each value every longer encoding (lenient must return the value, strict must reject) and every truncation (must fail); 0xff and empty input; every enumerated encoding is also decoded through a reader that returns one byte per call (same value, verdict and consumed length). Oracle: independent varint model "
                "(minimal length by range, two's-complement payload). distinct_nontrivial counts the enumerated encodings (distinct by construction) plus random cases.",
        "assumptions": COMMON_ASSUMPTIONS,
    },
    "C22": {
        "variants": REL,
        "budget_s": (25, 300),
        "min_nontrivial": {"quick": 2000, "thorough": 20000},
        "must_observe": ["small_int_cases", "long_atom_cases", "parse_triples_node_hashes"],
        "rule": "Every integer 0..300 in canonical, zero-padded and single-byte form (alone and inside shared pairs), atoms of 55..1,048,577 bytes around the 64/512/1024/4096/8192/65536-byte block sizes (alone and inside a small tree) and random trees/DAGs with atoms in all representations: the harness's recursive-definition hash (sha2 crate, memoised) is compared with "
                "tree_hash_costed, op_sha256_tree, run_program (sha256tree 1), ObjectCache treehash, InternedTree::tree_hash, tree_hash_from_stream, the root hash of parse_triples, and the ChiaLisp sha256tree program; the wheel's sha256_treehash is compared in the C26 python monitor. "
                "Non-trivial: tree has a shared sub-tree or an atom of <=1 byte.",
        "assumptions": COMMON_ASSUMPTIONS,
    },
    "C23": {
        "variants": REL,
        "budget_s": (25, 300),
        "min_nontrivial": {"quick": 2000, "thorough": 20000},
        "must_observe": ["shape_single_atom", "shape_complete_shared", "shape_shared_pairs_then_blob", "shape_random_tree"],
        "rule": "Single atoms of 0..4,000,000 bytes, huge atoms beside/below shared small pairs, complete trees of depth 1..16 (shared and unshared, leaf sizes 0/1/2/100), random trees/DAGs with atoms up to 60 KB; for each tree and {old,new} cost model x {GC off,on}: "
                "cost of (sha256tree (q . X)) must be strictly less than the cost of the maintainers' compiled ChiaLisp sha256tree program run on X, and both results equal. Non-trivial: every tree/flag combination (the minimum margin observed is reported).",
        "assumptions": COMMON_ASSUMPTIONS + ["the ChiaLisp program is the one in tools/src/bin/sha256tree-benching.rs"],
    },
    "C24": {
        "variants": {"quick": ["rel"], "thorough": ["rel"]},
        "budget_s": (25, 300),
        "min_nontrivial": {"quick": 2000, "thorough": 20000},
        "rule": "Trees/DAGs with heavy structural sharing, unshared deep copies placed next to the original (equal sub-trees that are different nodes), equal atoms stored as separate nodes in different representations (inline, forced heap, view, concat): intern_tree must "
                "give the same tree/serialisation/hash, pairwise distinct atoms and pairwise distinct pairs, counts equal to an independent hash-consing census of the model and never above the source's node counts. Non-trivial: source has duplicate atoms or sub-trees.",
        "assumptions": COMMON_ASSUMPTIONS,
    },
    "C25": {
        "variants": {"quick": ["rel", "dbg", "asan"], "thorough": ["rel", "dbg", "asan", "vg"]},
        "budget_s": (25, 300),
        "total": True,
        "min_nontrivial": {"quick": 5000, "thorough": 50000},
        "must_observe": ["directed_softfork_argument_cases", "directed_deep_recursion_cases"],
        "rule": "Untyped random trees as programs, typed programs mutated 1-3 times, typed programs with big atoms, x random flag sets x budgets {0,1,10,1e4,1.1e7,1.1e10}; hostile spellings of the softfork cost/extension arguments under every strictness flag; non-tail recursion 1000-20000 levels deep with and without ENABLE_GC at budgets that end the run at various depths; plus every ChiaDialect operator called "
                "directly on signature-aware, perturbed and completely arbitrary argument trees (sizes up to MBs). Oracle: catch_unwind + no EvalErr::InternalError; the same workload runs in release, "
                "debug-assertion/overflow-check and AddressSanitizer builds (a dying shard process is a violation). Non-trivial: run got past the first path lookup / operator was reached.",
        "assumptions": COMMON_ASSUMPTIONS + ["hangs are reported as inconclusive (watchdog), never as violations"],
    },
    "C30": {
        "variants": REL,
        "budget_s": (25, 300),
        "min_nontrivial": {"quick": 2000, "thorough": 20000},
        "must_observe": ["operator_level_calls_with_tiny_remaining_budget"],
        "rule": PROG + "without guards, restricted to the vocabulary common to both dialects (programs/envs containing 36, 48, 62, 63 or a 4-byte secp opcode anywhere are skipped), run on ChiaDialect(F) and on "
                "RuntimeDialect(standard table: the 44 names of f_table.rs at their ChiaDialect opcodes, secp only when ENABLE_SECP_OPS; quote 1, apply 2) with the same effective flags; F without ENABLE_GC/DISABLE_OP/"
                "ENABLE_KECCAK_OPS_OUTSIDE_GUARD/ENABLE_SHA256_TREE. Result, cost and error variant must agree. In addition every table operator is called directly through Dialect::op of both dialects with generated argument lists (a quarter with a pair behind a valid first argument) at remaining budgets {0,1,2,3,10,100,C-1,C,C+1,random,u64::MAX}. Non-trivial: run succeeded or failed inside an operator.",
        "assumptions": COMMON_ASSUMPTIONS + ["the 'standard table' is the harness's mapping of f_table.rs names to ChiaDialect opcodes"],
    },
    "C31": {
        "variants": REL,
        "budget_s": (25, 300),
        "min_nontrivial": {"quick": 500, "thorough": 5000},
        "must_observe": ["guards_completed_exempt", "guards_completed_exact_cost", "depth_boundary_cases"],
        "rule": "Guard towers of depth 1..25 built bottom-up with measured exact costs (5 inner bodies x {old, new model, GC} x LIMIT_SOFTFORK on/off: success expected iff not (LIMIT_SOFTFORK and depth>20)) and typed random programs "
                "containing guards under random flag sets. An online checker consumes the GuardEnter/GuardExit hook events of every run with a stack of open guards and asserts: counts at exit == counts at entry, result nil, "
                "consumed cost == declared unless cost-exempt, where a guard may be cost-exempt only under NEW_COST_MODEL (the interpreter's own exempt marker is checked against the flags, not trusted). Non-trivial: >=1 guard completed.",
        "assumptions": COMMON_ASSUMPTIONS + ["GuardEnter/GuardExit hook events (verif-hooks) faithfully report the allocator counters at guard entry and exit"],
    },
    "C04": {
        "variants": REL,
        "budget_s": (60, 480),
        "min_nontrivial": {"quick": 200, "thorough": 2000},
        "must_observe": ["gc_restore_noreplace", "gc_restore_replace", "gc_restore_aborted", "deep_recursion_cases"],
        "rule": "Typed random ChiaDialect programs (GC-heavy profile: 0.3-2 KiB atoms, concat/sha256/strlen garbage inside "
                "GC-candidate operators) plus directed programs forcing each MaybeRestore outcome and non-tail recursion 2000-12000 levels deep (up to ~36000 pending reclamation candidates); every case is run with "
                "flags F and F|ENABLE_GC on identically prepared allocators (unlimited, and heap/atom/pair caps placed inside "
                "the run's allocation need) at budgets {0, C, C-1, random}. A case is non-trivial when the allocated_* counters "
                "of the two runs differ, i.e. GC really reclaimed memory. Limits are biased to the exact need, one short and one spare. A heap-only difference is attributed to the recorded finding only when it equals the difference "
                "in bytes copied by substrings of inline atoms (InlineSubstrCopy hook events) and result, cost, atom and pair counts agree; everything else is a violation.",
        "assumptions": COMMON_ASSUMPTIONS + ["GcRestore hook events only serve as coverage evidence"],
    },
    "C32": {
        "variants": REL,
        "log": True,
        "py": "pymon.c32check",
        "budget_s": (25, 300),
        "min_nontrivial": {"quick": 2000, "thorough": 4000},
        "must_observe": ["sha256:ok", "keccak256:ok", "coinid:ok", "coinid:reject", "g1_multiply:ok", "g2_add:ok", "g1_negate:reject", "g2_negate:ok", "pubkey_for_exp:ok", "bls_verify:ok", "bls_verify:verify-fail",
                         "bls_pairing_identity:ok", "secp256k1_verify:ok", "secp256k1_verify:verify-fail", "secp256r1_verify:ok", "openssl_cross_checks", "g1_map_output_is_subgroup_point", "g2_map_default_dst_checked"],
        "rule": "Logged direct calls of the 18 cryptographic operators on structured argument lists: valid points, corrupted points (x>=p, off-curve, outside the subgroup, wrong/uncompressed/infinity flags, wrong lengths), scalars around 0, +-r and up to KBs, messages/DSTs of all sizes, "
                "valid ECDSA triples (signed in the harness) with bit flips, truncations, zero signatures and the algebraic twins of valid signatures ((r, n-s) i.e. high-S, (r, 0), (n-r, s)); valid AUG-scheme signatures constructed through the operators and wrong-message variants; RELAXED_BLS on/off. Oracles (pymon/cryptoref, self-validated): hashlib SHA-256, "
                "pure-python Keccak-256, BLS12-381 group law / ZCash encoding / subgroup checks / ate pairing, ECDSA over both curves cross-checked with the system OpenSSL. Policy pinned: infinity points are valid keys/signatures (chia-bls), secp256k1 requires low-S, secp256r1 does not. "
                "g1_map/g2_map are only partially covered (output is an r-torsion point, default DST equality, and the pairing relation that ties g2_map to bls_verify). Non-trivial: every modelled call (distinct op/arguments).",
        "assumptions": COMMON_ASSUMPTIONS + ["hash-to-curve (SSWU + isogeny) is not independently re-implemented; bls_verify is checked with the operator's own g2_map(pk||msg) points"],
    },
}
