"""Per-property configuration of the driver (`./check`)."""

REL = {"quick": ["rel"], "thorough": ["rel"]}

COMMON_ASSUMPTIONS = [
    "runtime monitoring: the verdict covers only the executions produced by this run",
    "harness generators, reference models and comparison code are trusted",
]

PROPS = {
    "C04": {
        "variants": REL,
        "budget_s": (60, 1500),
        "min_nontrivial": {"quick": 200, "thorough": 2000},
        "must_observe": ["gc_restore_noreplace", "gc_restore_replace", "gc_restore_aborted"],
        "rule": "Typed random ChiaDialect programs (GC-heavy profile: 0.3-2 KiB atoms, concat/sha256/strlen garbage inside "
                "GC-candidate operators) plus directed programs forcing each MaybeRestore outcome; every case is run with "
                "flags F and F|ENABLE_GC on identically prepared allocators (unlimited, and heap/atom/pair caps placed inside "
                "the run's allocation need) at budgets {0, C, C-1, random}. A case is non-trivial when the allocated_* counters "
                "of the two runs differ, i.e. GC really reclaimed memory.",
        "assumptions": COMMON_ASSUMPTIONS + ["GcRestore hook events only serve as coverage evidence"],
    },
}
