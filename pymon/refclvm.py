"""Reference CLVM interpreter and operator cost models (independent of clvm_rs).

Written from the semantics of the historical Python `clvm` package (eval loop
with op/value stacks, traverse_path, core_ops / more_ops, costs.py) plus the
*named adapters* for consensus changes made since then.  Python ints give
bignum independence from num-bigint / malachite.

Values: atoms are `bytes`, pairs are 2-tuples.

`[c]` corroborated by a repo vector / doc, `[r]` recalled from the historical
source only (see DESIGN.md C01).  Whenever a `[r]` rule decides an outcome the
interpreter sets `self.recalled = True`; the checker then reports a
disagreement as UNCORROBORATED-DIVERGENCE instead of a violation.
"""
import hashlib

NIL = b""
ONE = b"\x01"


class EvalError(Exception):
    def __init__(self, msg, kind="error"):
        super().__init__(msg)
        self.kind = kind


class OutOfScope(Exception):
    """program left the classic operator set (assigned non-classic opcode)"""


# ---------------------------------------------------------------- codec

def deser(b: bytes, pos=0):
    """classic deserialisation -> (tree, consumed); iterative"""
    vals = []
    ops = [0]  # 0 = parse, 1 = cons
    n = len(b)
    while ops:
        op = ops.pop()
        if op == 1:
            r = vals.pop()
            l = vals.pop()
            vals.append((l, r))
            continue
        if pos >= n:
            raise ValueError("truncated")
        x = b[pos]
        pos += 1
        if x == 0xFF:
            ops.append(1)
            ops.append(0)
            ops.append(0)
        elif x == 0x80:
            vals.append(NIL)
        elif x < 0x80:
            vals.append(bytes([x]))
        else:
            lead = 0
            m = 0x80
            while x & m:
                lead += 1
                m >>= 1
            if lead > 6:
                raise ValueError("bad encoding")
            size = x & (0xFF >> lead)
            for _ in range(lead - 1):
                size = (size << 8) | b[pos]
                pos += 1
            if pos + size > n:
                raise ValueError("truncated atom")
            vals.append(b[pos:pos + size])
            pos += size
    return vals[0], pos


def ser_atom(a: bytes) -> bytes:
    n = len(a)
    if n == 0:
        return b"\x80"
    if n == 1 and a[0] < 0x80:
        return a
    if n < 0x40:
        return bytes([0x80 | n]) + a
    if n < 0x2000:
        return bytes([0xC0 | (n >> 8), n & 0xFF]) + a
    if n < 0x100000:
        return bytes([0xE0 | (n >> 16), (n >> 8) & 0xFF, n & 0xFF]) + a
    if n < 0x8000000:
        return bytes([0xF0 | (n >> 24), (n >> 16) & 0xFF, (n >> 8) & 0xFF, n & 0xFF]) + a
    return bytes([0xF8 | (n >> 32), (n >> 24) & 0xFF, (n >> 16) & 0xFF, (n >> 8) & 0xFF, n & 0xFF]) + a


def ser(t) -> bytes:
    out = []
    stack = [t]
    while stack:
        x = stack.pop()
        if isinstance(x, tuple):
            out.append(b"\xff")
            stack.append(x[1])
            stack.append(x[0])
        else:
            out.append(ser_atom(x))
    return b"".join(out)


def tree_hash(t) -> bytes:
    # iterative post-order
    vals = []
    ops = [(0, t)]
    while ops:
        k, x = ops.pop()
        if k == 1:
            r = vals.pop()
            l = vals.pop()
            vals.append(hashlib.sha256(b"\x02" + l + r).digest())
        elif isinstance(x, tuple):
            ops.append((1, None))
            ops.append((0, x[1]))
            ops.append((0, x[0]))
        else:
            vals.append(hashlib.sha256(b"\x01" + x).digest())
    return vals[0]


# ---------------------------------------------------------------- ints

def int_from_bytes(b: bytes) -> int:
    if len(b) == 0:
        return 0
    return int.from_bytes(b, "big", signed=True)


def int_to_bytes(v: int) -> bytes:
    if v == 0:
        return b""
    n = (v.bit_length() + 8) >> 3
    b = v.to_bytes(n, "big", signed=True)
    while len(b) > 1 and b[0] == (0xFF if b[1] & 0x80 else 0):
        b = b[1:]
    return b


def limbs(v: int) -> int:
    return (v.bit_length() + 7) >> 3


def is_pair(x):
    return isinstance(x, tuple)


def list_len(args):
    n = 0
    while is_pair(args):
        n += 1
        args = args[1]
    return n


MALLOC = 10

# ---------------------------------------------------------------- interpreter


class Ref:
    """one evaluation context; `new` selects NEW_COST_MODEL"""

    def __init__(self, new=False, adapters=None, canonical_ints=False, limits=False, disable_op=False):
        self.new = new
        self.recalled = False
        self.adapters = adapters if adapters is not None else {"div-floor", "softfork-guard", "u64-cost"}
        self.canonical_ints = canonical_ints

    # -- argument iteration ------------------------------------------------
    def as_iter(self, args, tolerant=False):
        """historical SExp.as_iter(): fails on an improper list [r]"""
        out = []
        while is_pair(args):
            out.append(args[0])
            args = args[1]
        if args != NIL and not tolerant:
            self.recalled = True
            raise EvalError("first of non-cons", "improper-operand-list")
        return out

    def ints(self, name, args):
        r = []
        for a in self.as_iter(args):
            if is_pair(a):
                raise EvalError(f"{name} requires int args")
            r.append((int_from_bytes(a), len(a)))
        return r

    def int_list(self, name, args, count):
        r = self.ints(name, args)
        if len(r) != count:
            raise EvalError(f"{name} takes exactly {count} arguments")
        return r

    def malloc(self, cost, atom):
        return cost + len(atom) * MALLOC, atom

    # -- operators ---------------------------------------------------------
    def op_if(self, args):
        if list_len(args) != 3:
            raise EvalError("i takes exactly 3 arguments")
        c, a, b = args[0], args[1][0], args[1][1][0]
        cost = 330 if self.new else 33
        return cost, (b if c == NIL else a)

    def op_cons(self, args):
        if list_len(args) != 2:
            raise EvalError("c takes exactly 2 arguments")
        return 50, (args[0], args[1][0])

    def op_first(self, args):
        if list_len(args) != 1:
            raise EvalError("f takes exactly 1 argument")
        if not is_pair(args[0]):
            raise EvalError("first of non-cons")
        return 30, args[0][0]

    def op_rest(self, args):
        if list_len(args) != 1:
            raise EvalError("r takes exactly 1 argument")
        if not is_pair(args[0]):
            raise EvalError("rest of non-cons")
        return 30, args[0][1]

    def op_listp(self, args):
        if list_len(args) != 1:
            raise EvalError("l takes exactly 1 argument")
        return (200 if self.new else 19), (ONE if is_pair(args[0]) else NIL)

    def op_raise(self, args):
        raise EvalError("clvm raise", "raise")

    def op_eq(self, args):
        if list_len(args) != 2:
            raise EvalError("= takes exactly 2 arguments")
        a, b = args[0], args[1][0]
        if is_pair(a) or is_pair(b):
            raise EvalError("= on list")
        return 117 + len(a) + len(b), (ONE if a == b else NIL)

    def op_gr_bytes(self, args):
        l = self.as_iter(args)
        if len(l) != 2:
            raise EvalError(">s takes exactly 2 arguments")
        a, b = l
        if is_pair(a) or is_pair(b):
            raise EvalError(">s on list")
        return 117 + len(a) + len(b), (ONE if a > b else NIL)

    def op_sha256(self, args):
        base, per_arg, per_byte = (1000, 160, 6) if self.new else (87, 134, 2)
        cost = base
        h = hashlib.sha256()
        n = 0
        for a in self.as_iter(args):
            if is_pair(a):
                raise EvalError("sha256 on list")
            n += len(a)
            cost += per_arg
            h.update(a)
        cost += n * per_byte
        return self.malloc(cost, h.digest())

    def op_add(self, args, sign=1, name="+"):
        total = 0
        first = True
        if self.new:
            cost = 99
            for v, l in self.ints(name, args):
                cost += 500 + 4 * max(limbs(total), l)
                total = total + v if (first or sign == 1) else total - v
                first = False
        else:
            cost = 99
            size = 0
            for v, l in self.ints(name, args):
                total = total + v if (first or sign == 1) else total - v
                first = False
                size += l
                cost += 320
            cost += size * 3
        return self.malloc(cost, int_to_bytes(total))

    def op_subtract(self, args):
        return self.op_add(args, sign=-1, name="-")

    def op_multiply(self, args):
        ops = self.ints("*", args)
        div = 16 if self.new else 128
        cost = 2000 if self.new else 92
        if not ops:
            return self.malloc(cost, int_to_bytes(1))
        v, vs = ops[0]
        if self.new:
            cost += vs * 6
        for r, rs in ops[1:]:
            cost += 885 + (rs + vs) * 6 + (rs * vs) // div
            v = v * r
            vs = limbs(v)
        return self.malloc(cost, int_to_bytes(v))

    def _new_div_cost(self, l0, l1):
        return 1000 + (l0 + l1) * 50 + (l0 * l1) // 10

    def op_div(self, args):
        (i0, l0), (i1, l1) = self.int_list("/", args, 2)
        cost = self._new_div_cost(l0, l1) if self.new else 988 + (l0 + l1) * 4
        if i1 == 0:
            raise EvalError("div with 0", "div0")
        if "div-floor" in self.adapters:
            q = i0 // i1  # adapter A-div-floor: floor division for every sign
        else:
            q, r = divmod(i0, i1)
            if q == -1 and r != 0:
                q += 1
        return self.malloc(cost, int_to_bytes(q))

    def op_divmod(self, args):
        (i0, l0), (i1, l1) = self.int_list("divmod", args, 2)
        cost = self._new_div_cost(l0, l1) if self.new else 1116 + (l0 + l1) * 6
        if i1 == 0:
            raise EvalError("divmod with 0", "div0")
        q, r = divmod(i0, i1)
        qb, rb = int_to_bytes(q), int_to_bytes(r)
        return cost + (len(qb) + len(rb)) * MALLOC, (qb, rb)

    def op_mod(self, args):
        (i0, l0), (i1, l1) = self.int_list("mod", args, 2)
        cost = self._new_div_cost(l0, l1) if self.new else 988 + (l0 + l1) * 4
        if i1 == 0:
            raise EvalError("mod with 0", "div0")
        return self.malloc(cost, int_to_bytes(i0 % i1))

    def op_gr(self, args):
        (i0, l0), (i1, l1) = self.int_list(">", args, 2)
        cost = (1000 + (l0 + l1) * 4) if self.new else (498 + (l0 + l1) * 2)
        return cost, (ONE if i0 > i1 else NIL)

    def op_strlen(self, args):
        if list_len(args) != 1:
            raise EvalError("strlen takes exactly 1 argument")
        a = args[0]
        if is_pair(a):
            raise EvalError("strlen on list")
        return self.malloc(173 + len(a), int_to_bytes(len(a)))

    def _int32(self, name, a):
        if is_pair(a):
            raise EvalError(f"{name} requires int32 args")
        if len(a) > 4:
            raise EvalError(f"{name} requires int32 args (with no leading zeros)")
        return int_from_bytes(a)

    def op_substr(self, args):
        n = list_len(args)
        if n not in (2, 3):
            raise EvalError("substr takes exactly 2 or 3 arguments")
        s0 = args[0]
        if is_pair(s0):
            raise EvalError("substr on list")
        rest = self.as_iter(args[1])
        i1 = self._int32("substr", rest[0])
        i2 = self._int32("substr", rest[1]) if n == 3 else len(s0)
        if i2 > len(s0) or i2 < i1 or i2 < 0 or i1 < 0:
            raise EvalError("invalid indices for substr")
        return (2000 if self.new else 1), s0[i1:i2]

    def op_concat(self, args):
        cost = 142
        parts = []
        for a in self.as_iter(args):
            if is_pair(a):
                raise EvalError("concat on list")
            parts.append(a)
            cost += 135
        r = b"".join(parts)
        cost += len(r) * 3
        return self.malloc(cost, r)

    def _shift(self, name, i0, l0, a1, base):
        i1 = self._int32(name, a1)
        if abs(i1) > 65535:
            raise EvalError("shift too large", "shift")
        r = i0 << i1 if i1 >= 0 else i0 >> -i1
        cost = base + (l0 + limbs(r)) * 3
        return self.malloc(cost, int_to_bytes(r))

    def op_ash(self, args):
        l = self.as_iter(args)
        if len(l) != 2:
            raise EvalError("ash takes exactly 2 arguments")
        if is_pair(l[0]):
            raise EvalError("ash requires int args")
        return self._shift("ash", int_from_bytes(l[0]), len(l[0]), l[1], 596)

    def op_lsh(self, args):
        l = self.as_iter(args)
        if len(l) != 2:
            raise EvalError("lsh takes exactly 2 arguments")
        if is_pair(l[0]):
            raise EvalError("lsh requires int args")
        return self._shift("lsh", int.from_bytes(l[0], "big", signed=False), len(l[0]), l[1], 277)

    def _binop(self, name, init, f, args):
        total = init
        cost = 100
        size = 0
        for v, l in self.ints(name, args):
            if self.new:
                cost += 264 + 3 * max(l, limbs(total))
            else:
                cost += 264
                size += l
            total = f(total, v)
        cost += size * 3
        return self.malloc(cost, int_to_bytes(total))

    def op_logand(self, args):
        return self._binop("logand", -1, lambda a, b: a & b, args)

    def op_logior(self, args):
        return self._binop("logior", 0, lambda a, b: a | b, args)

    def op_logxor(self, args):
        return self._binop("logxor", 0, lambda a, b: a ^ b, args)

    def op_lognot(self, args):
        ((i0, l0),) = self.int_list("lognot", args, 1)
        return self.malloc(331 + l0 * 3, int_to_bytes(~i0))

    def op_not(self, args):
        l = self.as_iter(args)
        if len(l) != 1:
            raise EvalError("not takes exactly 1 argument")
        return 200, (ONE if l[0] == NIL else NIL)

    def op_any(self, args):
        l = self.as_iter(args)
        return 200 + 300 * len(l), (ONE if any(x != NIL for x in l) else NIL)

    def op_all(self, args):
        l = self.as_iter(args)
        return 200 + 300 * len(l), (ONE if all(x != NIL for x in l) else NIL)

    def op_modpow(self, args):
        (b, bl), (e, el), (m, ml) = self.int_list("modpow", args, 3)
        if self.new:
            cost = 17000 + el * 8 * (ml * ml + 4000) + bl * ml
        else:
            cost = 17000 + bl * 38 + el * el * 3 + ml * ml * 21
        if e < 0:
            raise EvalError("modpow with negative exponent")
        if m == 0:
            raise EvalError("modpow with 0 modulus", "div0")
        return self.malloc(cost, int_to_bytes(pow(b, e, m)))

    def op_coinid(self, args):
        if list_len(args) != 3:
            raise EvalError("coinid takes exactly 3 arguments")
        p, h, amt = args[0], args[1][0], args[1][1][0]
        for x in (p, h, amt):
            if is_pair(x):
                raise EvalError("coinid on list")
        if len(p) != 32 or len(h) != 32:
            raise EvalError("coinid: invalid hash length")
        if amt:
            if amt[0] & 0x80:
                raise EvalError("coinid: negative amount")
            if amt == b"\x00" or (len(amt) > 1 and amt[0] == 0 and amt[1] & 0x80 == 0):
                raise EvalError("coinid: leading zeros")
            if len(amt) > 9 or (len(amt) == 9 and amt[0] != 0):
                raise EvalError("coinid: amount too large")
        base = (1000 + 3 * 160 + 6 * 72 - 153) if self.new else (87 + 3 * 134 + 2 * 72 - 153)
        return self.malloc(base, hashlib.sha256(p + h + amt).digest())

    def op_keccak256(self, args):
        from pymon.cryptoref.keccak import keccak256
        base, per_arg, per_byte = (2350, 100, 10) if self.new else (50, 160, 2)
        cost = base
        data = b""
        for a in self.as_iter(args):
            if is_pair(a):
                raise EvalError("keccak256 on list")
            cost += per_arg + len(a) * per_byte
            data += a
        return self.malloc(cost, keccak256(data))

    def op_sha256tree(self, args):
        if list_len(args) != 1:
            raise EvalError("sha256tree takes exactly 1 argument")
        per_byte = 6 if self.new else 2
        cost = 270
        stack = [args[0]]
        while stack:
            x = stack.pop()
            if is_pair(x):
                cost += 460
                stack.append(x[0])
                stack.append(x[1])
            else:
                cost += (len(x) + 1) * per_byte
        return cost + 320, tree_hash(args[0])

    # unknown operators -----------------------------------------------------
    def unknown_op(self, op, args):
        if len(op) == 0 or op[:2] == b"\xff\xff":
            raise EvalError("reserved operator", "reserved")
        if len(op) > 5:
            raise EvalError("invalid operator", "invalid")
        fn = (op[-1] & 0xC0) >> 6
        mult = int.from_bytes(op[:-1], "big") + 1
        if fn == 0:
            cost = 1
        else:
            lens = []
            for a in self.as_iter(args, tolerant=False):
                if is_pair(a):
                    raise EvalError("unknown op requires atoms")
                lens.append(len(a))
            if fn == 1:
                cost = 99
                if self.new:
                    acc = 0
                    for l in lens:
                        cost += 500 + 4 * max(acc, l)
                        acc = max(acc, l)
                else:
                    cost += 320 * len(lens) + 3 * sum(lens)
            elif fn == 2:
                div = 16 if self.new else 128
                cost = 2000 if self.new else 92
                if lens:
                    vs = lens[0]
                    if self.new:
                        cost += vs * 6
                    for rs in lens[1:]:
                        cost += 885 + (rs + vs) * 6 + (rs * vs) // div
                        vs += rs
            else:
                cost = 142 + 135 * len(lens) + 3 * sum(lens)
        self.unknown_base = cost
        cost *= mult
        if cost >= 1 << 32:
            raise EvalError("invalid operator (cost overflow)", "invalid")
        return cost, NIL

    CLASSIC = {
        3: "op_if", 4: "op_cons", 5: "op_first", 6: "op_rest", 7: "op_listp", 8: "op_raise", 9: "op_eq", 10: "op_gr_bytes",
        11: "op_sha256", 12: "op_substr", 13: "op_strlen", 14: "op_concat", 16: "op_add", 17: "op_subtract", 18: "op_multiply",
        19: "op_div", 20: "op_divmod", 21: "op_gr", 22: "op_ash", 23: "op_lsh", 24: "op_logand", 25: "op_logior", 26: "op_logxor",
        27: "op_lognot", 32: "op_not", 33: "op_any", 34: "op_all",
    }
    # opcodes that clvm_rs has assigned since (outside the classic set)
    ASSIGNED_LATER = set([29, 30] + list(range(48, 62)))

    def apply_operator(self, op: bytes, args, in_guard_ext):
        if len(op) == 1 and op[0] in self.CLASSIC and op[0] < 0x80:
            return getattr(self, self.CLASSIC[op[0]])(args)
        if len(op) == 1 and op[0] in self.ASSIGNED_LATER:
            raise OutOfScope(f"opcode {op[0]}")
        if len(op) == 1 and op[0] == 62 and in_guard_ext == 1:
            raise OutOfScope("keccak inside guard")
        if len(op) == 4 and op in (b"\x13\xd6\x1f\x00", b"\x1c\x3a\x8f\x00"):
            raise OutOfScope("secp opcode")
        return self.unknown_op(op, args)

    # -- eval loop ---------------------------------------------------------
    def traverse(self, path: bytes, env):
        cost = 44
        i = 0
        while i < len(path) and path[i] == 0:
            i += 1
        cost += 4 * i
        if i == len(path):
            return cost, NIL
        first = path[i]
        end_mask = 0x80
        while not first & end_mask:
            end_mask >>= 1
        byte_cursor = len(path) - 1
        mask = 1
        while byte_cursor > i or mask < end_mask:
            if not is_pair(env):
                raise EvalError("path into atom", "path")
            env = env[1] if path[byte_cursor] & mask else env[0]
            cost += 4
            mask <<= 1
            if mask == 0x100:
                byte_cursor -= 1
                mask = 1
        return cost, env

    def uint_atom(self, a, size):
        if is_pair(a):
            raise EvalError("requires int arg")
        if len(a) == 0:
            return 0
        if a[0] & 0x80:
            raise EvalError("requires positive int arg")
        b = a.lstrip(b"\x00")
        if len(b) > size:
            raise EvalError("int too large")
        return int.from_bytes(b, "big")

    def run(self, program, env, max_cost):
        """returns (cost, result) or raises EvalError / OutOfScope"""
        U64 = (1 << 64) - 1
        if max_cost == 0:
            max_cost = U64  # adapter A-u64-cost
        EVAL, APPLY, CONS, SWAP, EXIT_GUARD = 0, 1, 2, 3, 4
        ops = [EVAL]
        vals = [(program, env)]
        guards = []  # (expected_cost, ext)
        cost = 0
        guard_cost = 500 if self.new else 140
        while ops:
            op = ops.pop()
            eff_max = guards[-1][0] if guards else max_cost
            if op == EVAL:
                pair = vals.pop()
                sexp, e = pair
                if not is_pair(sexp):
                    c, r = self.traverse(sexp, e)
                    vals.append(r)
                    cost += c
                else:
                    operator = sexp[0]
                    if is_pair(operator):
                        new_op, must_be_nil = operator
                        if is_pair(new_op):
                            raise EvalError("in ((X)...) syntax X must be lone atom")
                        if must_be_nil != NIL:
                            # historical implementation requires the inner list to be exactly (X) [r]
                            self.recalled = True
                            raise EvalError("in ((X)...) syntax X must be lone atom", "inner-terminator")
                        vals.append(new_op)
                        vals.append(sexp[1])
                        ops.append(APPLY)
                        cost += 90
                    elif operator == b"\x01":
                        vals.append(sexp[1])
                        cost += 20
                    else:
                        ops.append(APPLY)
                        vals.append(operator)
                        operand_list = sexp[1]
                        while is_pair(operand_list):
                            vals.append((operand_list[0], e))
                            ops.append(CONS)
                            ops.append(EVAL)
                            ops.append(SWAP)
                            operand_list = operand_list[1]
                        if operand_list != NIL:
                            raise EvalError("bad operand list", "terminator")  # [c]
                        vals.append(NIL)
                        cost += 1
            elif op == SWAP:
                a = vals.pop()
                b = vals.pop()
                vals.append(a)
                vals.append(b)
            elif op == CONS:
                a = vals.pop()
                b = vals.pop()
                vals.append((a, b))
            elif op == EXIT_GUARD:
                exp, ext = guards.pop()
                if cost != exp:
                    raise EvalError("softfork specified cost mismatch", "mismatch")
                vals.pop()
                vals.append(NIL)
            else:  # APPLY
                operand_list = vals.pop()
                operator = vals.pop()
                if operator == b"\x02":
                    if list_len(operand_list) != 2:
                        raise EvalError("apply requires exactly 2 parameters")
                    vals.append((operand_list[0], operand_list[1][0]))
                    ops.append(EVAL)
                    cost += 90
                elif operator == b"\x24" and "softfork-guard" in self.adapters:
                    # adapter A-softfork-guard
                    if not is_pair(operand_list):
                        raise EvalError("first of non-cons")
                    declared = self.uint_atom(operand_list[0], 8)
                    if declared > eff_max - cost or declared == 0:
                        raise EvalError("cost exceeded", "cost")
                    ext = None
                    if list_len(operand_list) == 4:
                        try:
                            e = self.uint_atom(operand_list[1][0], 4)
                            if e in (0, 1) and not self.new:
                                ext = e
                            elif e in (0, 1):
                                ext = e
                        except EvalError:
                            ext = None
                    if ext is None:
                        vals.append(NIL)
                        cost += declared
                    else:
                        prg = operand_list[1][1][0]
                        genv = operand_list[1][1][1][0]
                        if self.new:
                            exp = guards[-1][0] if guards else max_cost
                            guards.append((None, ext))
                            raise OutOfScope("cost-exempt guards are not modelled")
                        guards.append((cost + declared, ext))
                        ops.append(EXIT_GUARD)
                        ops.append(EVAL)
                        vals.append((prg, genv))
                        cost += guard_cost
                else:
                    c, r = self.apply_operator(operator, operand_list, guards[-1][1] if guards else None)
                    vals.append(r)
                    cost += c
            eff_max = guards[-1][0] if guards else max_cost
            if cost > eff_max:
                raise EvalError("cost exceeded", "cost")
        return cost, vals[-1]
