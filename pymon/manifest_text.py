HOOK_COMMITS = ["2717fa1"]

NOT_YET = {}

TEXT = {
    "C04": {
        "technique": "differential runtime monitor (F vs F|ENABLE_GC) + GC hook event log",
        "level": "Every generated program is executed by the real interpreter twice, with and without ENABLE_GC, on identically prepared "
                 "(also nearly-full) allocators; result, cost, error message and atom/pair/heap counts are compared. Held on the executions "
                 "listed in the evidence; non-trivial cases are those where GC provably reclaimed memory.",
        "note": "Trusted: harness generators and comparison code. Coverage is by workload diversity, not enumeration.",
    },
}
