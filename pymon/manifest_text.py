HOOK_COMMITS = ["2717fa1"]

NOT_YET = {}

def _t(technique, level, note="Trusted: harness generators, reference models and comparison code. Coverage comes from workload diversity (seeded, boundary-biased), not enumeration; the claim is 'held on the executions listed in the evidence'."):
    return {"technique": technique, "level": level, "note": note}


TEXT = {
    "C02": _t("differential runtime monitor over budgets (exhaustive per program when C<=4000) + guard hook events",
              "Each generated program is executed by the real interpreter at budget 0 and then at budgets around its cost; soundness, identity of all succeeding budgets, upward closure, CostExceeded below the minimum and tightness (minimum == C unless a cost-exempt guard was entered) are asserted per program."),
    "C03": _t("differential runtime monitor (baseline vs re-encoded atoms / pre-populated allocators / re-runs)",
              "Each generated program is executed on a fresh allocator and again under re-encoded atom representations and prior allocator histories; result, cost and error must not change."),
    "C06": _t("differential runtime monitor (F vs F|MALACHITE) on direct operator calls and programs",
              "div/divmod/mod/modpow are called with generated argument lists under both bignum backends; results, costs and error kinds are compared."),
    "C07": _t("differential runtime monitor with implication direction (F|R success => identical F success)",
              "Each generated program is run with and without restriction flags; a restricted success must be reproduced exactly by the unrestricted run, and RELAXED_BLS must preserve successes."),
    "C08": _t("differential runtime monitor (ChiaDialect vs extension-hiding dialect) + guard hook events",
              "Each generated softfork-heavy program is run on the extension-aware dialect and on a harness dialect that hides extensions and the 4-byte secp opcodes; aware successes must be reproduced with identical result, cost and allocator counts."),
    "C11": _t("differential runtime monitor (F vs F|NEW_COST_MODEL) on programs and direct operator calls",
              "Programs and single operator calls are executed under both cost models; whenever both succeed the result trees must be identical."),
    "C12": _t("reference-model monitor compared after every allocator operation (release + debug-assertion builds, Miri in thorough)",
              "Random allocator histories are executed on the real Allocator while an independent accounting model predicts atom_count/pair_count/heap_size after every single operation."),
    "C13": _t("lock-step limited/unlimited allocator monitor + exact headroom sweeps for programs and decoders",
              "The same history runs on a nearly-full allocator and an unlimited twin; per-operation success/failure, error kind, cap invariant and no-change-on-failure are asserted; programs and back-reference decoders are swept over every headroom value around their need."),
    "C14": _t("content-model monitor over allocator histories + exhaustive enumeration of short byte strings and integer ranges",
              "All live nodes are re-read after every restore/failed op; atom_eq, small_number, number and the four integer constructors are checked against independent encoders, exhaustively for short inputs."),
    "C15": _t("reference-model monitor (independent serialiser + model tree) with boundary-directed atoms up to 128 MiB",
              "Every generated tree is serialised by the real code and compared byte-for-byte with an independent serialiser, decoded back, and the four length/canonicity functions are checked; the converse direction is checked on mutated inputs."),
    "C16": _t("three-way differential decoder monitor + model tree hash + allocation meter; exhaustive short inputs; ASan/Miri layers",
              "All byte strings up to a length bound are enumerated and then structured/noisy inputs generated; the three classic decoders must agree on acceptance, consumed length, tree and hashes, never panic or over-allocate, and the canonical verdict must match its definition."),
    "C17": _t("reference-model monitor on back-reference serialisation under forced hash salts",
              "Generated trees are serialised with back-references, decoded, re-serialised and compared with the model tree, the classic length and the outputs under 8 forced hash salts."),
    "C18": _t("differential monitor: current vs legacy back-reference decoder vs length probe; exhaustive dense-alphabet inputs; dbg/ASan/Miri layers",
              "Each input is decoded by both back-reference decoders on fresh allocators and probed by serialized_length_from_bytes; acceptance, trees, pair counts and consumed length must agree."),
    "C29": _t("exact limit sweep monitor (every limit for small trees, every token boundary for large ones)",
              "Both size-limited serialisers are run at every limit around every token boundary and must either return the full serialisation or fail with OutOfMemory."),
    "C19": _t("history-model monitor over add/undo histories with byte snapshots and forced hash salts (release + debug-assertion builds, Miri in thorough)",
              "Random incremental-serializer histories are executed on the real Serializer; undo must restore the snapshot bytes, the finished output must decode to the model-assembled tree, and every step must be byte-identical under forced salts."),
    "C20": _t("reference-model round-trip monitor + totality/allocation monitor on mutated blobs + cross-decoder rejection (ASan/Miri layers)",
              "serde_2026 output is decoded strictly and leniently against the model tree and the length probe; hostile blobs must be handled without panic/over-allocation with probe == consumed; legacy decoders must reject magic-prefixed blobs."),
    "C21": _t("exhaustive enumeration of encodings/values against an independent varint model",
              "Every varint encoding up to a declared length of 3 (quick) or 4 (thorough) bytes and every small value are run through read_varint/write_varint in strict and lenient mode and compared with a 20-line reference model."),
    "C22": _t("reference-model monitor: recursive-definition hash vs 8 implementations (wheel side in the C26 python monitor)",
              "Each generated tree is hashed by an independent implementation of the definition and by every tree-hash implementation of the library; all must agree."),
    "C23": _t("direct cost-comparison monitor (native operator vs the maintainers' ChiaLisp program, both cost models)",
              "Both programs are executed by the real interpreter on the same tree and flags; native cost must be strictly lower and results equal."),
    "C24": _t("reference-model monitor: independent hash-consing census vs intern_tree",
              "intern_tree output is compared with the model tree and with distinct-atom/distinct-sub-tree counts computed independently."),
    "C25": _t("totality monitor (catch_unwind, InternalError detector) under release, debug-assertion, AddressSanitizer and Miri builds",
              "Hostile programs and arbitrary operator argument trees are executed under four build variants; any panic, abort, sanitizer report, dying process or InternalError is a violation.",
              "Trusted: harness generators. ASan/Miri cannot see into blst (C/asm); Miri runs a small no-BLS subset. Hangs are inconclusive."),
    "C30": _t("differential runtime monitor (ChiaDialect vs RuntimeDialect with the standard table)",
              "Guard-free programs inside the common vocabulary are run on both dialects with the same flags; result, cost and error kind must agree."),
    "C31": _t("online trace checker over GuardEnter/GuardExit hook events + LIMIT_SOFTFORK depth towers",
              "Every run's guard events are checked with a stack of open guards: counts restored, nil result, exact declared cost unless exempt; towers of depth 1..25 decide the 20/21 boundary."),
    "C04": {
        "technique": "differential runtime monitor (F vs F|ENABLE_GC) + GC hook event log",
        "level": "Every generated program is executed by the real interpreter twice, with and without ENABLE_GC, on identically prepared "
                 "(also nearly-full) allocators; result, cost, error message and atom/pair/heap counts are compared. Held on the executions "
                 "listed in the evidence; non-trivial cases are those where GC provably reclaimed memory.",
        "note": "Trusted: harness generators and comparison code. Coverage is by workload diversity, not enumeration.",
    },
}
