"""C01 oracle: replays the Rust interpreter log through the reference interpreter."""
import sys
from pymon import refclvm as R
from pymon.pycheck import Checker


def main():
    sys.setrecursionlimit(10000)
    c = Checker("C01")
    from pymon import optests
    total, failed, _ = optests.run()
    if failed or total < 3000:
        print(f"INCONCLUSIVE reference interpreter fails its own op-test validation ({failed}/{total})")
        return 3
    for rec in c.records():
        prog, _ = R.deser(bytes.fromhex(rec["program"]))
        env, _ = R.deser(bytes.fromhex(rec["env"]))
        ref = R.Ref(new=False)
        napply = [0]
        orig = ref.apply_operator

        def counting(op, args, g, orig=orig, napply=napply):
            napply[0] += 1
            return orig(op, args, g)
        ref.apply_operator = counting
        try:
            cost, res = ref.run(prog, env, rec["budget"])
            out = ("ok", cost, R.ser(res).hex() if rec["res"].get("result") is not None else None)
        except R.EvalError as e:
            out = ("fail", e.kind, str(e))
        except R.OutOfScope as e:
            c.count("out_of_scope:" + str(e).split(" ")[0])
            continue
        c.evaluations += 1
        rust = rec["res"]
        if rust["ok"]:
            rout = ("ok", rust["cost"], rust.get("result"))
        else:
            rout = ("fail", rust["variant"], rust["msg"])
        agree = (out[0] == rout[0]) and (out[0] == "fail" or (out[1] == rout[1] and (out[2] is None or rout[2] is None or out[2] == rout[2])))
        c.count(f"ref_{out[0]}__rust_{rout[0]}")
        if out[0] == "ok" and napply[0] >= 2:
            c.nontrivial(rec["program"], rec["env"], rec["budget"])
            c.sample({"program": rec["program"][:300], "env": rec["env"][:200], "budget": rec["budget"], "cost": out[1], "operators_applied": napply[0]})
        if out[0] == "fail":
            c.count("ref_fail_kind:" + out[1])
        if not agree:
            detail = {"reference": out, "rust": rout, "budget": rec["budget"]}
            if ref.recalled:
                # disagreement decided by a rule known only from memory of the historical source
                c.count("UNCORROBORATED-DIVERGENCE:" + out[1])
                if c.counters["UNCORROBORATED-DIVERGENCE:" + out[1]] <= 2:
                    print(f"UNCORROBORATED-DIVERGENCE property=C01 rule={out[1]} program={rec['program'][:120]} env={rec['env'][:60]} rust={rout[:2]} reference={out[:2]}")
                continue
            sig = "interpreter-disagrees-with-reference/" + ("success-vs-failure" if out[0] != rout[0] else ("cost" if out[1] != rout[1] else "result"))
            c.violation(sig, rec, detail)
    return c.finish()


if __name__ == "__main__":
    sys.exit(main())
