"""C32 oracle: independent implementations (hashlib/OpenSSL SHA-256, pure-python
Keccak, BLS12-381 and ECDSA) against the logged results of the cryptographic
operators."""
import hashlib, sys
from pymon import refclvm as R
from pymon.pycheck import Checker, args_list
from pymon.cryptoref import bls, ecdsa
from pymon.cryptoref.keccak import keccak256, selftest as keccak_selftest

RELAXED_BLS = 0x0008


def flat(args):
    out = []
    while isinstance(args, tuple):
        out.append(args[0])
        args = args[1]
    return out, args


class Reject(Exception):
    pass


def g1(b, subgroup=True):
    if isinstance(b, tuple):
        raise Reject("pair")
    try:
        return bls.decode_g1(b, subgroup)
    except ValueError as e:
        raise Reject(str(e))


def g2(b, subgroup=True):
    if isinstance(b, tuple):
        raise Reject("pair")
    try:
        return bls.decode_g2(b, subgroup)
    except ValueError as e:
        raise Reject(str(e))


def atom(b):
    if isinstance(b, tuple):
        raise Reject("pair")
    return b


def scalar(b):
    return R.int_from_bytes(atom(b)) % bls.R


def expected(rec, items, tail):
    """returns ('ok', result_tree) | ('reject', why) | ('verify-fail', why) | None when not modelled"""
    op = rec["op"]
    relaxed = bool(rec["flags"] & RELAXED_BLS)
    n = len(items)
    try:
        if op == "sha256":
            return ("ok", hashlib.sha256(b"".join(atom(x) for x in items)).digest())
        if op == "keccak256":
            return ("ok", keccak256(b"".join(atom(x) for x in items)))
        if op == "coinid":
            if n != 3:
                raise Reject("arity")
            p, h, amt = (atom(x) for x in items)
            if len(p) != 32 or len(h) != 32:
                raise Reject("hash length")
            if amt:
                # canonical non-negative integer of at most 64 bits
                if amt[0] & 0x80 or R.int_to_bytes(R.int_from_bytes(amt)) != amt or R.int_from_bytes(amt) >= 1 << 64:
                    raise Reject("amount")
            return ("ok", hashlib.sha256(p + h + amt).digest())
        if op == "pubkey_for_exp":
            if n != 1:
                raise Reject("arity")
            return ("ok", bls.encode_g1(bls.ec_mul(bls.FP, bls.G1, scalar(items[0]))))
        if op in ("point_add", "g1_subtract"):
            acc = None
            for i, x in enumerate(items):
                pt = g1(x)
                acc = bls.ec_add(bls.FP, acc, bls.ec_neg(bls.FP, pt) if (op == "g1_subtract" and i > 0) else pt)
            return ("ok", bls.encode_g1(acc))
        if op in ("g2_add", "g2_subtract"):
            acc = None
            for i, x in enumerate(items):
                pt = g2(x)
                acc = bls.ec_add(bls.FP2, acc, bls.ec_neg(bls.FP2, pt) if (op == "g2_subtract" and i > 0) else pt)
            return ("ok", bls.encode_g2(acc))
        if op == "g1_multiply":
            if n != 2:
                raise Reject("arity")
            pt = g1(items[0])
            return ("ok", bls.encode_g1(bls.ec_mul(bls.FP, pt, scalar(items[1]))))
        if op == "g2_multiply":
            if n != 2:
                raise Reject("arity")
            pt = g2(items[0])
            return ("ok", bls.encode_g2(bls.ec_mul(bls.FP2, pt, scalar(items[1]))))
        if op in ("g1_negate", "g2_negate"):
            if n != 1:
                raise Reject("arity")
            b = atom(items[0])
            size = 48 if op == "g1_negate" else 96
            if len(b) != size:
                raise Reject("length")
            if relaxed:
                # hard-fork behaviour: only the length is checked, the sign bit is flipped unless infinity
                if b[0] & 0xE0 == 0xC0:
                    return ("ok", b)
                return ("ok", bytes([b[0] ^ 0x20]) + b[1:])
            if op == "g1_negate":
                return ("ok", bls.encode_g1(bls.ec_neg(bls.FP, g1(b))))
            return ("ok", bls.encode_g2(bls.ec_neg(bls.FP2, g2(b))))
        if op == "bls_pairing_identity":
            if tail != b"":
                return None
            if n % 2:
                raise Reject("odd number of arguments")
            pairs = []
            for k in range(0, n, 2):
                pairs.append((g1(items[k]), g2(items[k + 1])))
            return ("ok", b"") if bls.pairing_product_is_one(pairs) else ("verify-fail", "pairing product != 1")
        if op == "bls_verify":
            if tail != b"" or n == 0:
                return None
            sig = g2(items[0])
            if (n - 1) % 2:
                raise Reject("dangling public key")
            aux = rec.get("aux_g2_map_of_pk_msg")
            pairs = []
            for k in range((n - 1) // 2):
                pk = g1(items[1 + 2 * k])
                atom(items[2 + 2 * k])
                if aux is None or aux[k] is None:
                    return None
                pairs.append((pk, g2(bytes.fromhex(aux[k]))))
            if not pairs:
                return ("ok", b"") if sig is None else ("verify-fail", "empty list needs the identity signature")
            # e(g1, sig) == prod e(pk_i, H_i)   <=>   e(-g1, sig) * prod e(pk_i, H_i) == 1
            ok = bls.pairing_product_is_one([(bls.ec_neg(bls.FP, bls.G1), sig)] + pairs)
            return ("ok", b"") if ok else ("verify-fail", "pairing relation does not hold")
        if op in ("secp256k1_verify", "secp256r1_verify"):
            if n != 3:
                raise Reject("arity")
            curve = ecdsa.K1 if op == "secp256k1_verify" else ecdsa.R1
            pkb, msg, sig = (atom(x) for x in items)
            try:
                pub = curve.parse_sec1(pkb)
            except ValueError as e:
                raise Reject("pubkey: " + str(e))
            if len(msg) != 32:
                raise Reject("digest length")
            try:
                # pinned policy: secp256k1 additionally requires low-S (libsecp256k1 semantics), secp256r1 does not
                ok = curve.verify(pub, msg, sig, require_low_s=(curve is ecdsa.K1))
            except ValueError as e:
                raise Reject("signature: " + str(e))
            return ("ok", b"") if ok else ("verify-fail", "signature does not verify")
    except Reject as e:
        return ("reject", str(e))
    return None


def main():
    c = Checker("C32")
    if not (keccak_selftest(100) and bls.selftest(full=True) and ecdsa.selftest()):
        print("INCONCLUSIVE crypto reference self-tests failed")
        return 3
    openssl_checked = 0
    for rec in c.records():
        op = rec["op"]
        args = args_list(rec)
        if args is None:
            continue
        items, tail = flat(args)
        res = rec["res"]
        if op in ("g1_map", "g2_map"):
            # hash-to-curve is only partially covered (see DESIGN.md): output must be a valid subgroup point,
            # and spelling out the default DST must give the same point
            if res["ok"] and isinstance(res.get("result"), str):
                c.evaluations += 1
                out = bytes.fromhex(res["result"])[-(48 if op == "g1_map" else 96):]
                try:
                    pt = bls.decode_g1(out) if op == "g1_map" else bls.decode_g2(out)
                    if pt is None:
                        raise ValueError("infinity")
                    c.count(op + "_output_is_subgroup_point")
                except ValueError as e:
                    c.violation("hash-to-curve-output-invalid", rec, {"op": op, "why": str(e)})
                tw = rec.get("explicit_default_dst_result")
                if tw is not None:
                    c.count(op + "_default_dst_checked")
                    if tw != res["result"]:
                        c.violation("hash-to-curve-default-dst-mismatch", rec, {"op": op})
                c.nontrivial(op, rec["args"])
            continue
        if tail != b"" and op not in ("coinid",):
            continue
        exp = expected(rec, items, tail)
        if exp is None:
            c.count("not_modelled:" + op)
            continue
        c.evaluations += 1
        if res["ok"]:
            got_kind = "ok"
        elif res["variant"] in ("BLSPairingIdentityFailed", "BLSVerifyFailed", "Secp256Failed"):
            got_kind = "verify-fail"
        elif res["variant"] == "CostExceeded":
            continue
        else:
            got_kind = "reject"
        c.count(f"{op}:{exp[0]}")
        c.nontrivial(op, rec["flags"] & RELAXED_BLS, rec["args"])
        if len(c.samples) < 4 and exp[0] != "reject":
            c.sample({"op": op, "args": [str(a)[:100] for a in rec["args"]], "expected": exp[0], "observed": got_kind})
        agree = got_kind == exp[0]
        if agree and exp[0] == "ok" and isinstance(res.get("result"), str):
            agree = R.ser(exp[1]).hex() == res["result"]
        if not agree:
            sig = f"crypto-operator-disagrees-with-independent-implementation/{op}"
            if op.startswith("secp") and exp[0] == "reject" and exp[1].startswith("pubkey: unsupported encoding") and items and isinstance(items[0], bytes) and items[0][:1] == b"\x05":
                sig += "/compact-0x05-public-key-accepted"
            c.violation(sig, rec, {"expected": [exp[0], exp[1].hex() if isinstance(exp[1], bytes) else exp[1]], "observed": res, "relaxed_bls": bool(rec["flags"] & RELAXED_BLS)})
        # independent second opinion for ECDSA: the system OpenSSL (no low-S rule there)
        if op.startswith("secp") and exp[0] in ("ok", "verify-fail") and openssl_checked < 40:
            curve = ecdsa.K1 if op == "secp256k1_verify" else ecdsa.R1
            pkb, msg, sg = items
            s = int.from_bytes(sg[32:], "big")
            if not (curve is ecdsa.K1 and s > curve.n // 2):
                o = ecdsa.openssl_verify(curve, curve.parse_sec1(pkb), msg, sg)
                if o is not None:
                    openssl_checked += 1
                    c.count("openssl_cross_checks")
                    if o != (exp[0] == "ok"):
                        c.violation("python-ecdsa-and-openssl-disagree", rec, {"openssl": o, "python": exp[0]})
            else:
                c.count("secp256k1_high_s_cases")
    return c.finish()


if __name__ == "__main__":
    sys.exit(main())
