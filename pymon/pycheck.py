"""Scaffolding shared by the python-side oracles: reads one shard's JSONL log,
keeps counters / samples / distinct keys, writes replay files for violations and
a summary in the same format as the Rust shards."""
import argparse, hashlib, json, os, struct, sys, time

ROOT = os.path.dirname(os.path.dirname(os.path.abspath(__file__)))


class Checker:
    def __init__(self, prop):
        ap = argparse.ArgumentParser()
        ap.add_argument("--log")
        ap.add_argument("--out")
        ap.add_argument("--tier", default="quick")
        ap.add_argument("--seed", type=int, default=1)
        ap.add_argument("--shard", type=int, default=0)
        ap.add_argument("--known")
        ap.add_argument("--budget-s", type=float, default=0.0)
        self.args = ap.parse_args()
        self.prop = prop
        self.t0 = time.time()
        self.evaluations = 0
        self.keys = set()
        self.counters = {}
        self.samples = []
        self.violations = []
        self.known_hits = {}
        self.known = []
        if self.args.known and os.path.exists(self.args.known):
            self.known = [f for f in json.load(open(self.args.known)).get("findings", []) if f.get("property") == prop and f.get("status") == "open"]

    def time_up(self, factor=1.0):
        """true once the (logical) workload should stop because the wall-clock budget is used up; what was
        not run is counted, never judged"""
        b = self.args.budget_s
        return b > 0 and time.time() - self.t0 > b * factor

    def records(self):
        if not self.args.log or not os.path.exists(self.args.log):
            return
        with open(self.args.log) as fh:
            for line in fh:
                line = line.strip()
                if not line:
                    continue
                if self.time_up(2.0):
                    # replaying is slower than logging for some oracles: the rest of the log is left unjudged
                    self.count("log_records_left_unreplayed_by_time_budget")
                    continue
                yield json.loads(line)

    def count(self, k, n=1):
        self.counters[k] = self.counters.get(k, 0) + n

    def nontrivial(self, *parts):
        h = hashlib.sha256()
        for p in parts:
            h.update(p if isinstance(p, bytes) else str(p).encode())
            h.update(b"|")
        self.keys.add(struct.unpack("<Q", h.digest()[:8])[0])

    def sample(self, v):
        if len(self.samples) < 4:
            self.samples.append(v)

    def violation(self, sig, rec, detail):
        self.count("violation_sig::" + sig)
        if any(k["signature"] == sig for k in self.known):
            e = self.known_hits.setdefault(sig, {"count": 0, "example": detail})
            e["count"] += 1
            return
        v = {"property": self.prop, "signature": sig, "seed": self.args.seed, "shard": self.args.shard, "nshards": 16,
             "tier": self.args.tier, "case": rec.get("case"), "record": rec, "detail": detail}
        if len(self.violations) < 25:
            txt = json.dumps(v, indent=1)
            d = os.path.join(ROOT, "replays", self.prop)
            os.makedirs(d, exist_ok=True)
            p = os.path.join(d, hashlib.sha256(txt.encode()).hexdigest()[:16] + ".json")
            open(p, "w").write(txt)
            print(f"VIOLATION property={self.prop} replay={p}", flush=True)
        self.violations.append(v)

    def finish(self):
        s = {"property": self.prop, "seed": self.args.seed, "shard": self.args.shard, "tier": self.args.tier,
             "evaluations": self.evaluations, "distinct_nontrivial": len(self.keys), "counters": self.counters, "samples": self.samples,
             "violations": len(self.violations), "violation_records": self.violations[:5],
             "known_hits": [{"signature": k, "count": v["count"], "example": v["example"]} for k, v in self.known_hits.items()],
             "wall_s": time.time() - self.t0}
        if self.args.out:
            json.dump(s, open(self.args.out, "w"))
            with open(self.args.out + ".keys", "wb") as f:
                f.write(struct.pack(f"<{len(self.keys)}Q", *sorted(self.keys)))
        else:
            print(json.dumps(s, indent=1)[:4000])
        return 1 if self.violations else 0


def arg_bytes(a):
    """decode an argument of a Rust op-call record into a python value"""
    from pymon import refclvm as R
    if isinstance(a, str):
        return bytes.fromhex(a)
    if "pat" in a:
        pat = bytes.fromhex(a["pat"])
        n = a["len"]
        return (pat * (n // len(pat) + 1))[:n]
    if "tree" in a:
        return R.deser(bytes.fromhex(a["tree"]))[0]
    return None  # too big to log


def args_list(rec):
    items = [arg_bytes(a) for a in rec["args"]]
    tail = arg_bytes(rec["tail"])
    if any(x is None for x in items) or tail is None:
        return None
    r = tail
    for x in reversed(items):
        r = (x, r)
    return r
