"""Regenerates MANIFEST.json from pymon/props.py + pymon/manifest_text.py"""
import json, os, sys
ROOT = os.path.dirname(os.path.dirname(os.path.abspath(__file__)))
sys.path.insert(0, ROOT)
from pymon import props, manifest_text as mt

ALL = ["C%02d" % i for i in range(1, 33)]


def main():
    checks = []
    na = []
    for pid in ALL:
        if pid in props.PROPS and pid in mt.TEXT:
            t = mt.TEXT[pid]
            c = {
                "property_id": pid,
                "quick_cmd": f"./check {pid} --tier quick",
                "thorough_cmd": f"./check {pid} --tier thorough",
                "evidence_file": f"/verif/evidence/{pid}.json",
                "replay_cmd_template": f"./check {pid} --replay {{path}}",
                "engine": "clvm_verif monitors",
                "level_claimed": {"category": "exploration", "text": t["level"], "design_ref": t.get("design_ref", f"DESIGN.md §2 {pid}")},
                "level_note": t["note"],
                "technique": t["technique"],
            }
            checks.append(c)
        else:
            na.append({"property_id": pid, "reason": mt.NOT_YET.get(pid, "monitor not built yet in this session (planned in DESIGN.md; runtime monitoring applies)")})
    m = {
        "version": 1,
        "setup_cmd": "./check --setup",
        "hooks": {
            "guard": "verif-hooks",
            "enable": "cargo feature of clvmr; the harness crate /verif/harness enables it through its default feature `hooks` (clvmr/verif-hooks)",
            "baseline_off_cmd": "cd /repo && cargo nextest run --workspace --no-fail-fast --test-threads 8 --offline || cargo test --workspace --no-fail-fast --offline",
            "source_commits": mt.HOOK_COMMITS,
            "add_only": True,
        },
        "engines": [
            {"name": "clvm_verif monitors", "path": "/verif/harness", "serves_properties": [c["property_id"] for c in checks],
             "kind_free_text": "Rust harness linking the real clvmr from /repo (release, no-fastpath, counters+pre-eval, debug-assertion, ASan and Miri variants): seeded workload generators, differential/reference-model/hook-event monitors; python oracles in /verif/pymon for the interpreter reference, cost formulas, crypto and the wheel"},
        ],
        "checks": checks,
        "not_applicable": na,
        "notes": "Technique family: runtime monitoring and sanitizers. See DESIGN.md. Verdicts are three-valued: exit 0 held on what was observed, exit 1 VIOLATION, exit 3 INCONCLUSIVE.",
    }
    json.dump(m, open(os.path.join(ROOT, "MANIFEST.json"), "w"), indent=1)
    print("checks:", len(checks), "not_applicable:", len(na))


if __name__ == "__main__":
    main()
