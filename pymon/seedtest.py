"""Apply a seeded change to /repo, run quick checks, undo it, record the result.
usage: python3 pymon/seedtest.py <seed-id> [<property> ...]   (default property = seed id)"""
import json, os, subprocess, sys, time
ROOT = os.path.dirname(os.path.dirname(os.path.abspath(__file__)))
sid = sys.argv[1]
props = sys.argv[2:] or [sid[:3]]
d = os.path.join(ROOT, "seeded", sid)
patch = os.path.join(d, "patch.diff")
st = subprocess.run(["git", "-C", "/repo", "status", "--porcelain", "--untracked-files=no"], capture_output=True, text=True).stdout.strip()
assert st == "", "/repo not clean: " + st
subprocess.run(["git", "-C", "/repo", "apply", patch], check=True)
res = {}
try:
    for p in props:
        t0 = time.time()
        r = subprocess.run(["./check", p, "--tier", "quick"], cwd=ROOT, capture_output=True, text=True)
        viol = [l for l in r.stdout.splitlines() if l.startswith("VIOLATION")]
        sig = None
        try:
            ev = json.load(open(os.path.join(ROOT, "evidence", p + ".json")))
            ex = ev["coverage"].get("violation_examples", [])
            sig = sorted({e.get("signature", "?") for e in ex})
        except Exception:
            pass
        res[p] = {"exit": r.returncode, "violation_lines": len(viol), "signatures": sig, "wall_s": round(time.time() - t0, 1)}
        print(p, res[p])
        if r.returncode not in (0, 1):
            print(r.stdout[-1500:])
finally:
    subprocess.run(["git", "-C", "/repo", "checkout", "--", "."], check=True)
mp = os.path.join(d, "meta.json")
meta = json.load(open(mp)) if os.path.exists(mp) else {}
meta.setdefault("detection", {}).update(res)
json.dump(meta, open(mp, "w"), indent=1)
