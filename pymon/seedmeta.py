"""(re)writes seeded/<id>/meta.json: property, provenance, what the change needs in order to manifest (from the sub-agent's NOTES.md), what was run."""
import json, os, re
ROOT = "/verif/seeded"
for sid in sorted(os.listdir(ROOT)):
    d = os.path.join(ROOT, sid)
    mp = os.path.join(d, "meta.json")
    meta = json.load(open(mp)) if os.path.exists(mp) else {}
    notes = open(os.path.join(d, "NOTES.md")).read() if os.path.exists(os.path.join(d, "NOTES.md")) else ""
    m = re.search(r"(?is)(trigger|what is needed|needed for it to manifest|to manifest)[^\n]*\n(.{0,900})", notes)
    needs = (m.group(2).strip() if m else notes[:600]).replace("\n\n", "\n")
    meta.update({
        "property": sid[:3],
        "origin": "fresh sub-agent given only the property text and a scratch worktree of /repo (nothing from /verif)",
        "files": sorted(os.listdir(d)),
        "needs_to_manifest": needs[:900],
        "how_checked": "python3 pymon/seedtest.py %s  (git -C /repo apply seeded/%s/patch.diff; ./check <prop> --tier quick; git -C /repo checkout -- .)" % (sid, sid),
    })
    json.dump(meta, open(mp, "w"), indent=1)
print("ok")
