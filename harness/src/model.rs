//! Owned reference model of CLVM trees, independent of `Allocator`.
//!
//! A `Forest` is an append-only arena; children always have smaller ids than
//! their parents, so every algorithm is iterative (deep spines are fine) and
//! shared sub-trees (DAGs) are handled by memoisation on ids.

use clvmr::allocator::{Allocator, NodePtr, SExp};
use sha2::{Digest, Sha256};
use std::collections::HashMap;

pub type Id = u32;

#[derive(Clone, Debug, PartialEq, Eq)]
pub enum MNode {
    Atom(Vec<u8>),
    Pair(Id, Id),
}

#[derive(Default, Clone)]
pub struct Forest {
    pub nodes: Vec<MNode>,
}

/// how an atom is materialised in the allocator
#[derive(Clone, Copy, Debug, PartialEq, Eq)]
pub enum Repr {
    /// `new_atom` (inline small int when canonical and < 2^26)
    Auto,
    /// forced onto the heap (substring view covering a private heap copy)
    Heap,
    /// a view into the middle of a larger, older heap atom
    View,
    /// built with `new_concat` from two halves
    Concat,
}

pub type Hash = [u8; 32];

pub fn sha256(parts: &[&[u8]]) -> Hash {
    let mut h = Sha256::new();
    for p in parts {
        h.update(p);
    }
    h.finalize().into()
}

pub fn atom_hash(b: &[u8]) -> Hash {
    sha256(&[&[1u8], b])
}

pub fn pair_hash(l: &Hash, r: &Hash) -> Hash {
    sha256(&[&[2u8], l, r])
}

/// classic serialisation of one atom (independent re-implementation)
pub fn ser_atom(out: &mut Vec<u8>, b: &[u8]) {
    let n = b.len() as u64;
    if n == 0 {
        out.push(0x80);
        return;
    }
    if n == 1 && b[0] < 0x80 {
        out.push(b[0]);
        return;
    }
    if n < 0x40 {
        out.push(0x80 | n as u8);
    } else if n < 0x2000 {
        out.push(0xc0 | (n >> 8) as u8);
        out.push(n as u8);
    } else if n < 0x10_0000 {
        out.push(0xe0 | (n >> 16) as u8);
        out.push((n >> 8) as u8);
        out.push(n as u8);
    } else if n < 0x800_0000 {
        out.push(0xf0 | (n >> 24) as u8);
        out.push((n >> 16) as u8);
        out.push((n >> 8) as u8);
        out.push(n as u8);
    } else {
        out.push(0xf8 | (n >> 32) as u8);
        out.push((n >> 24) as u8);
        out.push((n >> 16) as u8);
        out.push((n >> 8) as u8);
        out.push(n as u8);
    }
    out.extend_from_slice(b);
}

pub fn ser_atom_len(n: u64, first: u8) -> u64 {
    if n == 0 {
        1
    } else if n == 1 && first < 0x80 {
        1
    } else if n < 0x40 {
        1 + n
    } else if n < 0x2000 {
        2 + n
    } else if n < 0x10_0000 {
        3 + n
    } else if n < 0x800_0000 {
        4 + n
    } else {
        5 + n
    }
}

impl Forest {
    pub fn new() -> Self {
        Forest { nodes: Vec::new() }
    }

    pub fn atom(&mut self, b: &[u8]) -> Id {
        self.nodes.push(MNode::Atom(b.to_vec()));
        (self.nodes.len() - 1) as Id
    }

    pub fn nil(&mut self) -> Id {
        self.atom(&[])
    }

    pub fn pair(&mut self, l: Id, r: Id) -> Id {
        debug_assert!((l as usize) < self.nodes.len() && (r as usize) < self.nodes.len());
        self.nodes.push(MNode::Pair(l, r));
        (self.nodes.len() - 1) as Id
    }

    /// proper list `(items...)`
    pub fn list(&mut self, items: &[Id]) -> Id {
        let mut r = self.nil();
        for i in items.iter().rev() {
            r = self.pair(*i, r);
        }
        r
    }

    /// list with explicit terminator
    pub fn list_with_tail(&mut self, items: &[Id], tail: Id) -> Id {
        let mut r = tail;
        for i in items.iter().rev() {
            r = self.pair(*i, r);
        }
        r
    }

    pub fn int(&mut self, v: i128) -> Id {
        let b = encode_int(v);
        self.atom(&b)
    }

    pub fn get(&self, id: Id) -> &MNode {
        &self.nodes[id as usize]
    }

    pub fn is_atom(&self, id: Id) -> bool {
        matches!(self.nodes[id as usize], MNode::Atom(_))
    }

    pub fn atom_bytes(&self, id: Id) -> Option<&[u8]> {
        match &self.nodes[id as usize] {
            MNode::Atom(b) => Some(b),
            _ => None,
        }
    }

    /// ids reachable from root, ascending (children before parents)
    pub fn reachable(&self, root: Id) -> Vec<Id> {
        let mut mark = vec![false; root as usize + 1];
        mark[root as usize] = true;
        for i in (0..=root as usize).rev() {
            if !mark[i] {
                continue;
            }
            if let MNode::Pair(l, r) = self.nodes[i] {
                mark[l as usize] = true;
                mark[r as usize] = true;
            }
        }
        (0..=root).filter(|i| mark[*i as usize]).collect()
    }

    /// tree hash of every reachable node (memoised → linear in DAG size)
    pub fn hashes(&self, root: Id) -> HashMap<Id, Hash> {
        let mut m: HashMap<Id, Hash> = HashMap::new();
        for id in self.reachable(root) {
            let h = match &self.nodes[id as usize] {
                MNode::Atom(b) => atom_hash(b),
                MNode::Pair(l, r) => pair_hash(&m[l], &m[r]),
            };
            m.insert(id, h);
        }
        m
    }

    pub fn tree_hash(&self, root: Id) -> Hash {
        self.hashes(root)[&root]
    }

    /// number of nodes of the fully expanded tree and total serialized length,
    /// saturating (DAGs can be exponential)
    pub fn expanded_stats(&self, root: Id) -> (u128, u128, u128) {
        // (pairs, atoms, classic serialized length)
        let mut m: HashMap<Id, (u128, u128, u128)> = HashMap::new();
        for id in self.reachable(root) {
            let v = match &self.nodes[id as usize] {
                MNode::Atom(b) => (
                    0,
                    1,
                    ser_atom_len(b.len() as u64, b.first().copied().unwrap_or(0)) as u128,
                ),
                MNode::Pair(l, r) => {
                    let a = m[l];
                    let b = m[r];
                    (
                        (a.0.saturating_add(b.0)).saturating_add(1),
                        a.1.saturating_add(b.1),
                        (a.2.saturating_add(b.2)).saturating_add(1),
                    )
                }
            };
            m.insert(id, v);
        }
        m[&root]
    }

    /// classic serialisation of the expanded tree. Caller must make sure the
    /// expansion is small enough (see `expanded_stats`).
    pub fn classic_bytes(&self, root: Id) -> Vec<u8> {
        let mut out = Vec::new();
        let mut stack = vec![root];
        while let Some(id) = stack.pop() {
            match &self.nodes[id as usize] {
                MNode::Atom(b) => ser_atom(&mut out, b),
                MNode::Pair(l, r) => {
                    out.push(0xff);
                    stack.push(*r);
                    stack.push(*l);
                }
            }
        }
        out
    }

    /// build the tree inside an allocator. Sharing in the forest becomes sharing
    /// in the allocator. `repr` decides the storage form of every atom.
    pub fn materialize(
        &self,
        a: &mut Allocator,
        root: Id,
        repr: &mut dyn FnMut(Id, &[u8]) -> Repr,
    ) -> clvmr::error::Result<NodePtr> {
        let mut m: HashMap<Id, NodePtr> = HashMap::new();
        for id in self.reachable(root) {
            let n = match &self.nodes[id as usize] {
                MNode::Atom(b) => make_atom(a, b, repr(id, b))?,
                MNode::Pair(l, r) => a.new_pair(m[l], m[r])?,
            };
            m.insert(id, n);
        }
        Ok(m[&root])
    }

    pub fn materialize_auto(&self, a: &mut Allocator, root: Id) -> clvmr::error::Result<NodePtr> {
        self.materialize(a, root, &mut |_, _| Repr::Auto)
    }

    /// import a tree from an allocator (sharing by NodePtr identity preserved)
    pub fn import(&mut self, a: &Allocator, root: NodePtr) -> Id {
        let mut memo: HashMap<NodePtr, Id> = HashMap::new();
        enum Op {
            Visit(NodePtr),
            Build(NodePtr, NodePtr, NodePtr),
        }
        let mut stack = vec![Op::Visit(root)];
        while let Some(op) = stack.pop() {
            match op {
                Op::Visit(n) => {
                    if memo.contains_key(&n) {
                        continue;
                    }
                    match a.sexp(n) {
                        SExp::Atom => {
                            let id = self.atom(a.atom(n).as_ref());
                            memo.insert(n, id);
                        }
                        SExp::Pair(l, r) => {
                            stack.push(Op::Build(n, l, r));
                            stack.push(Op::Visit(r));
                            stack.push(Op::Visit(l));
                        }
                    }
                }
                Op::Build(n, l, r) => {
                    if memo.contains_key(&n) {
                        continue;
                    }
                    let id = self.pair(memo[&l], memo[&r]);
                    memo.insert(n, id);
                }
            }
        }
        memo[&root]
    }

    /// structural equality between a model tree and an allocator tree
    pub fn eq_node(&self, root: Id, a: &Allocator, n: NodePtr) -> bool {
        let mut seen: std::collections::HashSet<(Id, NodePtr)> = std::collections::HashSet::new();
        let mut stack = vec![(root, n)];
        while let Some((id, n)) = stack.pop() {
            if !seen.insert((id, n)) {
                continue;
            }
            match (&self.nodes[id as usize], a.sexp(n)) {
                (MNode::Atom(b), SExp::Atom) => {
                    if a.atom(n).as_ref() != b.as_slice() {
                        return false;
                    }
                }
                (MNode::Pair(l, r), SExp::Pair(nl, nr)) => {
                    stack.push((*l, nl));
                    stack.push((*r, nr));
                }
                _ => return false,
            }
        }
        true
    }

    /// canonical-form (hash-consing) census: number of distinct atom values and
    /// distinct sub-trees reachable from root
    pub fn distinct_census(&self, root: Id) -> (usize, usize) {
        let h = self.hashes(root);
        let mut atoms = std::collections::HashSet::new();
        let mut pairs = std::collections::HashSet::new();
        for (id, hash) in &h {
            match &self.nodes[*id as usize] {
                MNode::Atom(_) => {
                    atoms.insert(*hash);
                }
                MNode::Pair(_, _) => {
                    pairs.insert(*hash);
                }
            }
        }
        (atoms.len(), pairs.len())
    }
}

/// tree hash of an allocator node computed by the harness (memoised by NodePtr)
pub fn node_tree_hash(a: &Allocator, root: NodePtr) -> Hash {
    let mut memo: HashMap<NodePtr, Hash> = HashMap::new();
    enum Op {
        Visit(NodePtr),
        Build(NodePtr, NodePtr, NodePtr),
    }
    let mut stack = vec![Op::Visit(root)];
    while let Some(op) = stack.pop() {
        match op {
            Op::Visit(n) => {
                if memo.contains_key(&n) {
                    continue;
                }
                match a.sexp(n) {
                    SExp::Atom => {
                        memo.insert(n, atom_hash(a.atom(n).as_ref()));
                    }
                    SExp::Pair(l, r) => {
                        stack.push(Op::Build(n, l, r));
                        stack.push(Op::Visit(r));
                        stack.push(Op::Visit(l));
                    }
                }
            }
            Op::Build(n, l, r) => {
                let h = pair_hash(&memo[&l], &memo[&r]);
                memo.insert(n, h);
            }
        }
    }
    memo[&root]
}

/// structural equality of two allocator trees (possibly different allocators)
pub fn nodes_equal(a: &Allocator, n: NodePtr, b: &Allocator, m: NodePtr) -> bool {
    let mut seen: std::collections::HashSet<(NodePtr, NodePtr)> = std::collections::HashSet::new();
    let mut stack = vec![(n, m)];
    while let Some((n, m)) = stack.pop() {
        if !seen.insert((n, m)) {
            continue;
        }
        match (a.sexp(n), b.sexp(m)) {
            (SExp::Atom, SExp::Atom) => {
                if a.atom(n).as_ref() != b.atom(m).as_ref() {
                    return false;
                }
            }
            (SExp::Pair(l, r), SExp::Pair(l2, r2)) => {
                stack.push((l, l2));
                stack.push((r, r2));
            }
            _ => return false,
        }
    }
    true
}

/// make one atom with a chosen storage representation. Whatever the
/// representation, `a.atom(n)` must read back exactly `b`.
pub fn make_atom(a: &mut Allocator, b: &[u8], repr: Repr) -> clvmr::error::Result<NodePtr> {
    match repr {
        Repr::Auto => a.new_atom(b),
        Repr::Heap => {
            // a heap parent that is never a small int: prefix with 0xff marker
            let mut buf = Vec::with_capacity(b.len() + 5);
            buf.extend_from_slice(&[0xa5, 0x5a, 0xa5, 0x5a, 0xa5]);
            buf.extend_from_slice(b);
            let parent = a.new_atom(&buf)?;
            a.new_substr(parent, 5, 5 + b.len() as u32)
        }
        Repr::View => {
            let mut buf = Vec::with_capacity(b.len() + 11);
            buf.extend_from_slice(&[0x11, 0x22, 0x33, 0x44, 0x55, 0x66]);
            buf.extend_from_slice(b);
            buf.extend_from_slice(&[0x77, 0x88, 0x99, 0xaa, 0xbb]);
            let parent = a.new_atom(&buf)?;
            a.new_substr(parent, 6, 6 + b.len() as u32)
        }
        Repr::Concat => {
            if b.len() < 2 {
                return make_atom(a, b, Repr::Heap);
            }
            let mid = b.len() / 2;
            let l = make_atom(a, &b[..mid], Repr::Heap)?;
            let r = make_atom(a, &b[mid..], Repr::Heap)?;
            a.new_concat(b.len(), &[l, r])
        }
    }
}

/// minimal two's complement big-endian encoding (independent implementation)
pub fn encode_int(v: i128) -> Vec<u8> {
    if v == 0 {
        return vec![];
    }
    let mut b = v.to_be_bytes().to_vec();
    while b.len() > 1 {
        if (b[0] == 0x00 && b[1] & 0x80 == 0) || (b[0] == 0xff && b[1] & 0x80 != 0) {
            b.remove(0);
        } else {
            break;
        }
    }
    b
}

pub fn hex(b: &[u8]) -> String {
    hex::encode(b)
}
