//! Deterministic PRNG (SplitMix64 seeding a xoshiro256**), independent of any
//! crate so that every build variant generates byte-identical workloads.

#[derive(Clone)]
pub struct Rng {
    s: [u64; 4],
}

fn splitmix(x: &mut u64) -> u64 {
    *x = x.wrapping_add(0x9e3779b97f4a7c15);
    let mut z = *x;
    z = (z ^ (z >> 30)).wrapping_mul(0xbf58476d1ce4e5b9);
    z = (z ^ (z >> 27)).wrapping_mul(0x94d049bb133111eb);
    z ^ (z >> 31)
}

pub fn mix(parts: &[u64]) -> u64 {
    let mut x = 0x243f6a8885a308d3u64;
    for p in parts {
        x ^= *p;
        let _ = splitmix(&mut x);
        x = x.rotate_left(23) ^ splitmix(&mut x);
    }
    x
}

pub fn str_key(s: &str) -> u64 {
    let mut h = 0xcbf29ce484222325u64;
    for b in s.bytes() {
        h ^= b as u64;
        h = h.wrapping_mul(0x100000001b3);
    }
    h
}

impl Rng {
    pub fn new(seed: u64) -> Self {
        let mut x = seed;
        let s = [
            splitmix(&mut x),
            splitmix(&mut x),
            splitmix(&mut x),
            splitmix(&mut x),
        ];
        Rng { s }
    }

    /// independent stream for one case
    pub fn for_case(seed: u64, prop: &str, shard: u64, idx: u64) -> Self {
        Rng::new(mix(&[seed, str_key(prop), shard, idx]))
    }

    pub fn u64(&mut self) -> u64 {
        let r = self.s[1].wrapping_mul(5).rotate_left(7).wrapping_mul(9);
        let t = self.s[1] << 17;
        self.s[2] ^= self.s[0];
        self.s[3] ^= self.s[1];
        self.s[1] ^= self.s[2];
        self.s[0] ^= self.s[3];
        self.s[2] ^= t;
        self.s[3] = self.s[3].rotate_left(45);
        r
    }

    pub fn u32(&mut self) -> u32 {
        (self.u64() >> 32) as u32
    }

    pub fn u8(&mut self) -> u8 {
        (self.u64() >> 56) as u8
    }

    /// uniform in 0..n (n > 0)
    pub fn below(&mut self, n: u64) -> u64 {
        debug_assert!(n > 0);
        ((self.u64() as u128 * n as u128) >> 64) as u64
    }

    pub fn range(&mut self, lo: u64, hi_incl: u64) -> u64 {
        lo + self.below(hi_incl - lo + 1)
    }

    pub fn usize(&mut self, n: usize) -> usize {
        self.below(n as u64) as usize
    }

    pub fn chance(&mut self, num: u64, den: u64) -> bool {
        self.below(den) < num
    }

    pub fn pick<'a, T>(&mut self, v: &'a [T]) -> &'a T {
        &v[self.usize(v.len())]
    }

    pub fn bytes(&mut self, n: usize) -> Vec<u8> {
        let mut v = Vec::with_capacity(n);
        while v.len() + 8 <= n {
            v.extend_from_slice(&self.u64().to_le_bytes());
        }
        while v.len() < n {
            v.push(self.u8());
        }
        v
    }

    /// weighted choice, returns index
    pub fn weighted(&mut self, w: &[u32]) -> usize {
        let total: u64 = w.iter().map(|x| *x as u64).sum();
        let mut r = self.below(total);
        for (i, x) in w.iter().enumerate() {
            if r < *x as u64 {
                return i;
            }
            r -= *x as u64;
        }
        w.len() - 1
    }
}
