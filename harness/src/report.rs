//! Shard context: arguments, per-case RNG streams, counters, samples,
//! violation/replay plumbing and the summary JSON written at the end.

use crate::rng::Rng;
use serde_json::{Value, json};
use std::collections::{BTreeMap, HashSet};
use std::io::Write;
use std::time::Instant;

#[derive(Clone, Copy, PartialEq, Eq, Debug)]
pub enum Tier {
    Quick,
    Thorough,
}

pub struct KnownFinding {
    pub property: String,
    pub signature: String,
    pub status: String,
}

pub struct Ctx {
    pub prop: String,
    pub seed: u64,
    pub shard: u64,
    pub nshards: u64,
    pub tier: Tier,
    /// replay: run only this case id
    pub only_case: Option<u64>,
    pub out: Option<String>,
    pub log: Option<String>,
    pub budget_s: f64,
    /// number of random-case loops the monitor runs one after another; loop k may use the time budget up to k/sections
    pub sections: u32,
    pub section_idx: u32,
    pub scale: f64,
    pub start: Instant,
    pub evaluations: u64,
    pub nontrivial: HashSet<u64>,
    pub counters: BTreeMap<String, u64>,
    pub samples: Vec<Value>,
    pub max_samples: usize,
    pub violations: Vec<Value>,
    pub known_hits: BTreeMap<String, (u64, Value)>,
    pub known: Vec<KnownFinding>,
    pub cur_case: u64,
    pub extra: BTreeMap<String, Value>,
    pub verbose: bool,
    pub logw: Option<std::io::BufWriter<std::fs::File>>,
    pub miri: bool,
    pub case_started: Option<(u64, Instant)>,
    pub trace: bool,
    /// sanitizer builds (ASan) run a lighter version of the exhaustive parts
    pub light: bool,
}

pub const DIRECTED: u64 = 1 << 62;

impl Ctx {
    pub fn from_args(args: &[String]) -> Ctx {
        let mut c = Ctx {
            prop: args.first().cloned().unwrap_or_default(),
            seed: 1,
            shard: 0,
            nshards: 1,
            tier: Tier::Quick,
            only_case: None,
            out: None,
            log: None,
            budget_s: 60.0,
            sections: 1,
            section_idx: 0,
            scale: 1.0,
            start: Instant::now(),
            evaluations: 0,
            nontrivial: HashSet::new(),
            counters: BTreeMap::new(),
            samples: Vec::new(),
            max_samples: 4,
            violations: Vec::new(),
            known_hits: BTreeMap::new(),
            known: Vec::new(),
            cur_case: 0,
            extra: BTreeMap::new(),
            verbose: false,
            logw: None,
            miri: cfg!(miri),
            case_started: None,
            trace: std::env::var("VERIF_TRACE").is_ok(),
            light: false,
        };
        let mut i = 1;
        while i < args.len() {
            let k = args[i].as_str();
            let v = args.get(i + 1).cloned().unwrap_or_default();
            match k {
                "--seed" => c.seed = v.parse().expect("seed"),
                "--shard" => {
                    let mut it = v.split('/');
                    c.shard = it.next().unwrap().parse().expect("shard");
                    c.nshards = it.next().unwrap().parse().expect("nshards");
                }
                "--tier" => {
                    c.tier = if v == "thorough" {
                        Tier::Thorough
                    } else {
                        Tier::Quick
                    }
                }
                "--case" => c.only_case = Some(v.parse().expect("case")),
                "--out" => c.out = Some(v),
                "--log" => c.log = Some(v),
                "--budget-s" => c.budget_s = v.parse().expect("budget"),
                "--scale" => c.scale = v.parse().expect("scale"),
                "--known" => c.load_known(&v),
                "--light" => {
                    c.light = true;
                    i += 1;
                    continue;
                }
                "--verbose" => {
                    c.verbose = true;
                    i += 1;
                    continue;
                }
                _ => panic!("unknown argument {k}"),
            }
            i += 2;
        }
        if let Some(p) = &c.log {
            c.logw = Some(std::io::BufWriter::new(
                std::fs::File::create(p).expect("create log"),
            ));
        }
        c
    }

    fn load_known(&mut self, path: &str) {
        let Ok(txt) = std::fs::read_to_string(path) else {
            return;
        };
        let v: Value = serde_json::from_str(&txt).expect("known_findings.json");
        for e in v["findings"].as_array().cloned().unwrap_or_default() {
            self.known.push(KnownFinding {
                property: e["property"].as_str().unwrap_or("").to_string(),
                signature: e["signature"].as_str().unwrap_or("").to_string(),
                status: e["status"].as_str().unwrap_or("").to_string(),
            });
        }
    }

    pub fn thorough(&self) -> bool {
        self.tier == Tier::Thorough
    }

    /// number of random cases for this shard
    pub fn n(&self, quick_total: u64, thorough_total: u64) -> u64 {
        let t = if self.thorough() {
            thorough_total
        } else {
            quick_total
        };
        let t = (t as f64 * self.scale) as u64;
        let t = if self.light { t / 8 } else { t };
        if self.miri {
            return (t / 200).clamp(2, 1600).div_ceil(self.nshards).max(1);
        }
        t.div_ceil(self.nshards)
    }

    pub fn out_of_time(&self) -> bool {
        let share = if self.sections <= 1 { 1.0 } else { (self.section_idx.max(1) as f64 / self.sections as f64).min(1.0) };
        self.start.elapsed().as_secs_f64() > self.budget_s * share
    }

    /// called at the start of every random-case loop
    pub fn begin_random_section(&mut self) {
        self.section_idx += 1;
    }

    /// should the case with this id run in this shard/replay?
    pub fn want(&mut self, id: u64) -> bool {
        if let Some((prev, t)) = self.case_started.take() {
            let dt = t.elapsed().as_secs_f64();
            if dt > 3.0 {
                eprintln!("slow case {prev} of {}: {dt:.1}s", self.prop);
                self.count("slow_cases_over_3s");
            }
        }
        if let Some(c) = self.only_case {
            if c != id {
                return false;
            }
        } else if (self.light || self.miri) && id & DIRECTED != 0 && self.start.elapsed().as_secs_f64() > self.budget_s * 0.5 {
            // sanitizer layers do not claim exhaustiveness: stay inside the time budget
            self.count("light_mode_directed_cases_skipped");
            return false;
        } else if id & DIRECTED != 0 && (id & !DIRECTED) % self.nshards != self.shard {
            return false;
        }
        if self.trace {
            eprintln!("case {id}");
        }
        self.cur_case = id;
        self.case_started = Some((id, Instant::now()));
        true
    }

    pub fn rng(&self, id: u64) -> Rng {
        if id & DIRECTED != 0 {
            // directed cases do not depend on the shard
            Rng::for_case(self.seed, &self.prop, u64::MAX, id)
        } else {
            Rng::for_case(self.seed, &self.prop, self.shard, id)
        }
    }

    pub fn eval(&mut self) {
        self.evaluations += 1;
    }

    pub fn nontrivial(&mut self, key: u64) {
        self.nontrivial.insert(key);
    }

    pub fn nontrivial_bytes(&mut self, parts: &[&[u8]]) {
        let h = crate::model::sha256(parts);
        self.nontrivial
            .insert(u64::from_le_bytes(h[..8].try_into().unwrap()));
    }

    /// distinct non-trivial cases that are distinct by construction (an
    /// enumeration): counted without storing a key per case
    pub fn nontrivial_enumerated(&mut self, n: u64) {
        *self.counters.entry("enumerated_distinct_nontrivial".to_string()).or_insert(0) += n;
    }

    pub fn count(&mut self, k: &str) {
        *self.counters.entry(k.to_string()).or_insert(0) += 1;
    }

    pub fn add(&mut self, k: &str, n: u64) {
        *self.counters.entry(k.to_string()).or_insert(0) += n;
    }

    pub fn max(&mut self, k: &str, n: u64) {
        let e = self.counters.entry(k.to_string()).or_insert(0);
        if n > *e {
            *e = n;
        }
    }

    pub fn sample(&mut self, v: impl FnOnce() -> Value) {
        if self.samples.len() < self.max_samples {
            let v = v();
            self.samples.push(v);
        }
    }

    pub fn log_line(&mut self, v: &Value) {
        if let Some(w) = &mut self.logw {
            serde_json::to_writer(&mut *w, v).unwrap();
            w.write_all(b"\n").unwrap();
        }
    }

    /// An oracle fired. `sig` classifies the failure (call site + predicate);
    /// if it matches an *open* entry of known_findings.json the hit is reported
    /// as a known finding, otherwise it is a violation with a replay file.
    pub fn violation(&mut self, sig: &str, detail: Value) {
        let known = self
            .known
            .iter()
            .any(|k| k.property == self.prop && k.signature == sig && k.status == "open");
        if known {
            let e = self
                .known_hits
                .entry(sig.to_string())
                .or_insert((0, detail.clone()));
            e.0 += 1;
            return;
        }
        self.count(&format!("violation_sig::{sig}"));
        let rec = json!({
            "property": self.prop,
            "signature": sig,
            "seed": self.seed,
            "shard": self.shard,
            "nshards": self.nshards,
            "tier": if self.thorough() {"thorough"} else {"quick"},
            "case": self.cur_case,
            "detail": detail,
        });
        if self.violations.len() < 25 {
            let txt = serde_json::to_string_pretty(&rec).unwrap();
            let h = crate::model::sha256(&[txt.as_bytes()]);
            let dir = format!("{}/replays/{}", verif_root(), self.prop);
            let _ = std::fs::create_dir_all(&dir);
            let path = format!("{}/{}.json", dir, hex::encode(&h[..8]));
            let _ = std::fs::write(&path, txt);
            println!("VIOLATION property={} replay={}", self.prop, path);
            if self.verbose || self.only_case.is_some() {
                println!("{}", serde_json::to_string_pretty(&rec).unwrap());
            }
        }
        self.violations.push(rec);
    }

    pub fn finish(mut self) -> i32 {
        if let Some(w) = &mut self.logw {
            w.flush().unwrap();
        }
        let mut nt: Vec<u64> = self.nontrivial.iter().copied().collect();
        nt.sort_unstable();
        let summary = json!({
            "property": self.prop,
            "seed": self.seed,
            "shard": self.shard,
            "nshards": self.nshards,
            "tier": if self.thorough() {"thorough"} else {"quick"},
            "evaluations": self.evaluations,
            "distinct_nontrivial": nt.len(),
            "counters": self.counters,
            "samples": self.samples,
            "violations": self.violations.len(),
            "violation_records": self.violations.iter().take(5).collect::<Vec<_>>(),
            "known_hits": self.known_hits.iter().map(|(k,(n,d))| json!({"signature":k,"count":n,"example":d})).collect::<Vec<_>>(),
            "extra": self.extra,
            "wall_s": self.start.elapsed().as_secs_f64(),
            "miri": self.miri,
        });
        if let Some(p) = &self.out {
            std::fs::write(p, serde_json::to_string(&summary).unwrap()).expect("write summary");
            // distinct keys for cross-shard union
            let mut f = std::io::BufWriter::new(
                std::fs::File::create(format!("{p}.keys")).expect("keys file"),
            );
            for k in &nt {
                f.write_all(&k.to_le_bytes()).unwrap();
            }
            f.flush().unwrap();
        } else {
            println!("{}", serde_json::to_string_pretty(&summary).unwrap());
        }
        if self.violations.is_empty() { 0 } else { 1 }
    }
}

pub fn verif_root() -> String {
    std::env::var("VERIF_ROOT").unwrap_or_else(|_| "/verif".to_string())
}
