//! Valid BLS points and ECDSA triples used as *inputs* by the generators.
//! They are produced with the same libraries the implementation links
//! (chia-bls / k256 / p256); they are inputs, never oracles.

use crate::genr::Points;
use chia_bls::{G1Element, G2Element};
use k256::ecdsa::signature::hazmat::PrehashSigner;

pub fn build_points() -> Points {
    if cfg!(miri) {
        // Miri cannot cross the blst / FFI boundary: fixed byte strings (inputs only)
        let g1gen = hex::decode("97f1d3a73197d7942695638c4fa9ac0fc3688c4f9774b905a14e3a3f171bac586c55e83ff97a1aeffb3af00adb22c6bb").unwrap();
        let mut inf1 = vec![0u8; 48];
        inf1[0] = 0xc0;
        let mut inf2 = vec![0u8; 96];
        inf2[0] = 0xc0;
        return Points {
            g1: vec![g1gen, inf1],
            g2: vec![inf2],
            k1: vec![(vec![2; 33], vec![1; 32], vec![3; 64])],
            r1: vec![(vec![2; 33], vec![1; 32], vec![3; 64])],
            bad_g1: vec![vec![0x33; 48]],
            bad_g2: vec![vec![0x33; 96]],
        };
    }
    let mut g1 = Vec::new();
    let mut g2 = Vec::new();
    for i in 1u8..=6 {
        let mut sk = [0u8; 32];
        sk[31] = i;
        sk[20] = i.wrapping_mul(37);
        let p = G1Element::from_integer(&sk);
        g1.push(p.to_bytes().to_vec());
        let q: G2Element = chia_bls::hash_to_g2(&[i, 1, 2, 3]);
        g2.push(q.to_bytes().to_vec());
    }
    // identities
    g1.push(G1Element::default().to_bytes().to_vec());
    g2.push(G2Element::default().to_bytes().to_vec());

    let mut k1 = Vec::new();
    let mut r1 = Vec::new();
    for i in 1u8..=4 {
        let mut skb = [0x11u8; 32];
        skb[0] = i;
        skb[31] = i.wrapping_mul(3) | 1;
        let mut msg = [0u8; 32];
        for (j, m) in msg.iter_mut().enumerate() {
            *m = (j as u8).wrapping_mul(7).wrapping_add(i);
        }
        {
            let sk = k256::ecdsa::SigningKey::from_slice(&skb).expect("k1 key");
            let sig: k256::ecdsa::Signature = sk.sign_prehash(&msg).expect("k1 sign");
            let pk = sk.verifying_key().to_sec1_point(true);
            k1.push((pk.as_bytes().to_vec(), msg.to_vec(), sig.to_bytes().to_vec()));
        }
        {
            let sk = p256::ecdsa::SigningKey::from_slice(&skb).expect("r1 key");
            let sig: p256::ecdsa::Signature = sk.sign_prehash(&msg).expect("r1 sign");
            let pk = sk.verifying_key().to_sec1_point(true);
            r1.push((pk.as_bytes().to_vec(), msg.to_vec(), sig.to_bytes().to_vec()));
        }
    }
    // invalid blobs: a valid point with one coordinate bit flipped (off curve or
    // not in the subgroup with overwhelming probability), x >= p, junk
    let mut bad_g1 = Vec::new();
    let mut bad_g2 = Vec::new();
    for (i, p) in g1.iter().take(3).enumerate() {
        let mut b = p.clone();
        b[40 - i] ^= 0x10;
        if G1Element::from_bytes(&b.clone().try_into().unwrap()).is_err() {
            bad_g1.push(b);
        }
    }
    bad_g1.push({
        let mut b = vec![0xffu8; 48];
        b[0] = 0x9f;
        b
    });
    bad_g1.push(vec![0x33u8; 48]);
    for (i, p) in g2.iter().take(3).enumerate() {
        let mut b = p.clone();
        b[80 - i] ^= 0x10;
        if G2Element::from_bytes(&b.clone().try_into().unwrap()).is_err() {
            bad_g2.push(b);
        }
    }
    bad_g2.push({
        let mut b = vec![0xffu8; 96];
        b[0] = 0x9f;
        b
    });
    bad_g2.push(vec![0x33u8; 96]);
    Points { g1, g2, k1, r1, bad_g1, bad_g2 }
}
