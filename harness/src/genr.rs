//! Seeded workload generators: atoms, trees/DAGs, typed CLVM programs,
//! operator argument lists, flag sets and byte strings.

use crate::model::{Forest, Id, MNode, encode_int};
use crate::rng::Rng;
use clvmr::chia_dialect::ClvmFlags;

// ---------------------------------------------------------------- atoms

pub const LEN_CLASSES: &[usize] = &[
    0, 1, 1, 2, 2, 3, 4, 4, 5, 8, 9, 16, 31, 32, 32, 33, 47, 48, 49, 63, 64, 65, 95, 96, 97, 128,
    255, 256, 257, 1000, 1024, 1025, 2048, 2049,
];

/// boundary-biased integer encodings (possibly non-canonical)
pub fn gen_int_atom(r: &mut Rng) -> Vec<u8> {
    match r.below(20) {
        0 => vec![],
        1..=5 => encode_int(r.below(41) as i128),
        6 => encode_int(-(r.below(200) as i128)),
        7 => {
            // around powers of two
            let k = *r.pick(&[7u32, 8, 15, 16, 23, 24, 25, 26, 31, 32, 33, 63, 64, 65, 127]);
            let d = r.below(5) as i128 - 2;
            let v = (1i128 << k.min(120)) + d;
            encode_int(if r.chance(1, 3) { -v } else { v })
        }
        8 => {
            // redundant leading zero / 0xff bytes (non-canonical)
            let mut b = encode_int(r.below(70000) as i128 - 1000);
            let pad = if b.first().is_some_and(|x| x & 0x80 != 0) {
                0xff
            } else {
                0x00
            };
            for _ in 0..r.range(1, 3) {
                b.insert(0, pad);
            }
            b
        }
        9 => vec![0x00],
        10 => vec![0x00; r.range(1, 4) as usize],
        11 => {
            let n = r.range(5, 40) as usize;
            r.bytes(n)
        }
        12 => encode_int(r.u32() as i128),
        13 => encode_int((r.u64() >> r.below(40)) as i128),
        14 => encode_int(-((r.u64() >> r.below(50)) as i128)),
        15 => encode_int(r.below(1 << 27) as i128),
        16 => {
            // values around 2^26 (inline boundary)
            encode_int((1i128 << 26) + r.below(5) as i128 - 2)
        }
        _ => encode_int(r.below(1000) as i128),
    }
}

/// machine-word boundary values: 0, +-1, +-2, +-(2^k - 1), +-2^k, +-(2^k + 1)
pub fn boundary_ints() -> Vec<Vec<u8>> {
    let mut v: Vec<i128> = vec![0, 1, -1, 2, -2, 3, -3, 10, -10];
    for k in [7u32, 8, 15, 16, 23, 24, 25, 26, 31, 32, 33, 62, 63, 64, 65, 126] {
        let p = 1i128 << k;
        for x in [p - 1, p, p + 1] {
            v.push(x);
            v.push(-x);
        }
    }
    let mut out: Vec<Vec<u8>> = v.into_iter().map(encode_int).collect();
    // a few non-canonical spellings
    out.push(vec![0x00]);
    out.push(vec![0xff, 0xff]);
    out.push(vec![0x00, 0x7f]);
    out.push(vec![0xff, 0x80, 0, 0, 0, 0, 0, 0, 0]);
    out
}

/// values around every byte-length boundary of inline atoms: sums, differences and products of a few of them carry
/// into a longer (or shrink to a shorter) encoding in the middle of an operand list
pub fn carry_values() -> Vec<Vec<u8>> {
    let v: Vec<i128> = vec![0, 1, 0x7f, 0x80, 0xff, 0x100, 0x7fff, 0x8000, 0xfff0, 0xffff, 0x10000, 0x7f_ffff, 0x80_0000, 0xff_ffff, 0x100_0000, 0x3ff_ffff, -1, -0x80, -0x8000];
    v.into_iter().map(encode_int).collect()
}

/// every operand list of length 3 (and a deterministic quarter of those of length 4) over `carry_values`,
/// split into `nblocks` blocks; returns the lists of block `blk`
pub fn carry_lists(blk: usize, nblocks: usize) -> Vec<Vec<Vec<u8>>> {
    let vals = carry_values();
    let n = vals.len();
    let mut out = Vec::new();
    let mut k = 0usize;
    for a in 0..n {
        for b in 0..n {
            for c in 0..n {
                k += 1;
                if k % nblocks == blk {
                    out.push(vec![vals[a].clone(), vals[b].clone(), vals[c].clone()]);
                }
                if (a * 31 + b * 7 + c) % 8 == 0 {
                    for d in 0..n {
                        k += 1;
                        if k % nblocks == blk && (a + b + c + d) % 2 == 0 {
                            out.push(vec![vals[a].clone(), vals[b].clone(), vals[c].clone(), vals[d].clone()]);
                        }
                    }
                }
            }
        }
    }
    out
}

/// related signatures of a valid 64-byte (r || s) ECDSA signature: kind 0 = (r, n - s), 1 = (r, 0), 2 = (n - r, s)
pub fn signature_twin(sig: &[u8], k1: bool, kind: u64) -> Vec<u8> {
    use num_bigint::BigUint;
    if sig.len() != 64 {
        return sig.to_vec();
    }
    let n = BigUint::parse_bytes(
        if k1 { b"FFFFFFFFFFFFFFFFFFFFFFFFFFFFFFFEBAAEDCE6AF48A03BBFD25E8CD0364141" } else { b"FFFFFFFF00000000FFFFFFFFFFFFFFFFBCE6FAADA7179E84F3B9CAC2FC632551" },
        16,
    )
    .unwrap();
    let (r, s) = (BigUint::from_bytes_be(&sig[..32]), BigUint::from_bytes_be(&sig[32..]));
    let (r2, s2) = match kind {
        0 => (r, &n - &s),
        1 => (r, BigUint::from(0u32)),
        _ => (&n - &r, s),
    };
    let pad = |x: &BigUint| {
        let b = x.to_bytes_be();
        let mut v = vec![0u8; 32usize.saturating_sub(b.len())];
        v.extend_from_slice(&b);
        v
    };
    let mut out = pad(&r2);
    out.extend(pad(&s2));
    out
}

pub fn gen_bytes_atom(r: &mut Rng, max_len: usize) -> Vec<u8> {
    let mut len = *r.pick(LEN_CLASSES);
    if len > max_len {
        len = r.usize(max_len + 1);
    }
    match r.below(6) {
        0 => vec![0u8; len],
        1 => vec![0xffu8; len],
        2 => {
            let b = r.u8();
            vec![b; len]
        }
        _ => r.bytes(len),
    }
}

pub fn gen_atom(r: &mut Rng, max_len: usize) -> Vec<u8> {
    if r.chance(1, 2) {
        gen_int_atom(r)
    } else {
        gen_bytes_atom(r, max_len)
    }
}

// ---------------------------------------------------------------- trees

#[derive(Clone, Copy, Debug, PartialEq, Eq)]
pub enum Shape {
    Random,
    LeftSpine,
    RightSpine,
    Doubling,
    WideList,
    Repeats,
    SingleAtom,
    StackEcho,
}

pub const SHAPES: &[Shape] = &[
    Shape::Random,
    Shape::Random,
    Shape::Random,
    Shape::LeftSpine,
    Shape::RightSpine,
    Shape::Doubling,
    Shape::WideList,
    Shape::Repeats,
    Shape::Repeats,
    Shape::SingleAtom,
    Shape::StackEcho,
    Shape::StackEcho,
];

/// generate a tree/DAG; `size` bounds the number of forest nodes
pub fn gen_tree(r: &mut Rng, f: &mut Forest, shape: Shape, size: usize, max_atom: usize) -> Id {
    let size = size.max(1);
    match shape {
        Shape::SingleAtom => {
            let b = gen_atom(r, max_atom);
            f.atom(&b)
        }
        Shape::LeftSpine | Shape::RightSpine => {
            let mut n = {
                let b = gen_atom(r, max_atom);
                f.atom(&b)
            };
            let few: Vec<Id> = (0..4)
                .map(|_| {
                    let b = gen_atom(r, max_atom.min(40));
                    f.atom(&b)
                })
                .collect();
            for _ in 0..size {
                let leaf = *r.pick(&few);
                n = if shape == Shape::LeftSpine {
                    f.pair(n, leaf)
                } else {
                    f.pair(leaf, n)
                };
            }
            n
        }
        Shape::Doubling => {
            let b = gen_atom(r, max_atom.min(64));
            let mut n = f.atom(&b);
            let levels = (size.min(40)).max(1);
            for _ in 0..levels {
                n = match r.below(4) {
                    0 => {
                        let b = gen_atom(r, 8);
                        let x = f.atom(&b);
                        let p = f.pair(n, x);
                        f.pair(p, n)
                    }
                    _ => f.pair(n, n),
                };
            }
            n
        }
        Shape::WideList => {
            let mut items = Vec::new();
            let distinct = r.range(1, 6) as usize;
            let pool: Vec<Id> = (0..distinct)
                .map(|_| {
                    let b = gen_atom(r, max_atom);
                    f.atom(&b)
                })
                .collect();
            for _ in 0..size {
                if r.chance(1, 3) {
                    let b = gen_atom(r, max_atom.min(20));
                    items.push(f.atom(&b));
                } else {
                    items.push(*r.pick(&pool));
                }
            }
            f.list(&items)
        }
        Shape::StackEcho => {
            // Proper lists in which some elements equal the reversed list of (a tail of) everything parsed before them.
            // While a back-reference decoder reads such an element, it is exactly (a tail of) the decoder's parse stack,
            // which is what the compressing serializers refer to with the paths 1, 3, 7, ...
            fn build(r: &mut Rng, f: &mut Forest, stack: &mut Vec<Id>, depth: u32, budget: &mut usize, alphabet: &[Id]) -> Id {
                let n = r.range(2, 7) as usize;
                let base = stack.len();
                let mut items: Vec<Id> = Vec::new();
                for _ in 0..n {
                    if *budget == 0 {
                        break;
                    }
                    *budget -= 1;
                    let it = match r.below(8) {
                        0..=2 if !stack.is_empty() => {
                            // the stack as a list has its most recent entry first; a tail drops the most recent ones
                            let keep = stack.len() - r.usize(stack.len().min(3));
                            let rev: Vec<Id> = stack[..keep].iter().rev().cloned().collect();
                            f.list(&rev)
                        }
                        3 if depth < 3 => build(r, f, stack, depth + 1, budget, alphabet),
                        4 if !items.is_empty() => *r.pick(&items),
                        _ => *r.pick(alphabet),
                    };
                    items.push(it);
                    stack.push(it);
                }
                stack.truncate(base);
                f.list(&items)
            }
            let mut alphabet: Vec<Id> = Vec::new();
            for b in [&[5u8][..], b"ab", &[0x11; 32], b"", &[0x00, 0x80], &[0x80]] {
                alphabet.push(f.atom(b));
            }
            for _ in 0..2 {
                let b = gen_atom(r, max_atom.min(48));
                alphabet.push(f.atom(&b));
            }
            let mut budget = size.clamp(3, 200);
            let mut stack = Vec::new();
            build(r, f, &mut stack, 0, &mut budget, &alphabet)
        }
        Shape::Random | Shape::Repeats => {
            // bottom-up random DAG/tree: a pool of nodes, combine random picks
            let reuse = if shape == Shape::Repeats { 3 } else { 1 };
            let mut pool: Vec<Id> = Vec::new();
            let natoms = (size / 2).clamp(1, 64);
            for _ in 0..natoms {
                let b = if shape == Shape::Repeats && r.chance(1, 5) {
                    // sign twins: a positive integer that needs a leading zero and the negative atom with the same
                    // low bytes, near-identical values that only differ in representation-sensitive places
                    r.pick(&[&[0x00u8, 0x80][..], &[0x80], &[0x00, 0xff], &[0xff], &[0x00, 0x80, 0x00], &[0x80, 0x00], &[0x00], &[]]).to_vec()
                } else if shape == Shape::Repeats && r.chance(1, 2) {
                    // repeated values stored as separate nodes (equal, not shared)
                    let v = r.below(6) as u8;
                    vec![v; (v as usize % 3) * 10 + 1]
                } else {
                    gen_atom(r, max_atom)
                };
                pool.push(f.atom(&b));
            }
            let mut last = pool[0];
            for _ in 0..size {
                let l = *r.pick(&pool);
                let rr = *r.pick(&pool);
                last = f.pair(l, rr);
                for _ in 0..reuse {
                    pool.push(last);
                }
                if shape == Shape::Random && pool.len() > 8 && r.chance(1, 2) {
                    // consume: keeps it closer to a tree than a DAG
                    let i = r.usize(pool.len());
                    pool.swap_remove(i);
                }
            }
            last
        }
    }
}

/// deep copy that breaks all sharing (equal sub-trees become separate nodes),
/// only for trees whose expansion is small
pub fn unshare(f: &mut Forest, root: Id) -> Id {
    // iterative post-order expansion
    enum Op {
        Visit(Id),
        Build,
    }
    let mut ops = vec![Op::Visit(root)];
    let mut vals: Vec<Id> = Vec::new();
    while let Some(op) = ops.pop() {
        match op {
            Op::Visit(id) => match f.get(id).clone() {
                MNode::Atom(b) => vals.push(f.atom(&b)),
                MNode::Pair(l, r) => {
                    ops.push(Op::Build);
                    ops.push(Op::Visit(r));
                    ops.push(Op::Visit(l));
                }
            },
            Op::Build => {
                let r = vals.pop().unwrap();
                let l = vals.pop().unwrap();
                vals.push(f.pair(l, r));
            }
        }
    }
    vals.pop().unwrap()
}

// ---------------------------------------------------------------- flags

pub fn gen_flags(r: &mut Rng, allowed: ClvmFlags) -> ClvmFlags {
    let mut fl = ClvmFlags::empty();
    match r.below(8) {
        0 => {}
        1 => fl = clvmr::chia_dialect::MEMPOOL_MODE,
        _ => {
            for (f, _) in crate::outcome::ALL_FLAGS {
                if r.chance(1, 4) {
                    fl |= *f;
                }
            }
        }
    }
    if r.chance(1, 3) {
        fl |= ClvmFlags::ENABLE_SHA256_TREE | ClvmFlags::ENABLE_SECP_OPS;
    }
    if r.chance(1, 4) {
        fl |= ClvmFlags::ENABLE_KECCAK_OPS_OUTSIDE_GUARD;
    }
    fl & allowed
}

// ---------------------------------------------------------------- programs

#[derive(Clone, Copy, Debug, PartialEq, Eq)]
pub enum Ty {
    Int,
    Bytes,
    Bool,
    Any,
    List,
    G1,
    G2,
    Nil,
}

#[derive(Clone)]
pub struct ProgCfg {
    /// opcodes 1-36 without 29/30 only
    pub classic: bool,
    pub bls: bool,
    pub guards: bool,
    pub secp: bool,
    pub unknown_ops: bool,
    pub keccak_outside: bool,
    pub sha256tree: bool,
    pub big_atoms: bool,
    pub max_depth: u32,
    /// flags the guards' declared costs are measured under
    pub flags: ClvmFlags,
    /// probability (in 1/16) that a generated program is mutated into a
    /// (probably) failing one
    pub mutate_16: u64,
    pub recursion: bool,
}

impl ProgCfg {
    pub fn classic() -> Self {
        ProgCfg {
            classic: true,
            bls: false,
            guards: true,
            secp: false,
            unknown_ops: true,
            keccak_outside: false,
            sha256tree: false,
            big_atoms: false,
            max_depth: 5,
            flags: ClvmFlags::empty(),
            mutate_16: 4,
            recursion: true,
        }
    }
    pub fn full(flags: ClvmFlags) -> Self {
        ProgCfg {
            classic: false,
            bls: true,
            guards: true,
            secp: true,
            unknown_ops: !flags.contains(ClvmFlags::NO_UNKNOWN_OPS),
            keccak_outside: flags.contains(ClvmFlags::ENABLE_KECCAK_OPS_OUTSIDE_GUARD),
            sha256tree: flags.contains(ClvmFlags::ENABLE_SHA256_TREE),
            big_atoms: false,
            max_depth: 5,
            flags,
            mutate_16: 3,
            recursion: true,
        }
    }
}

pub struct Prog {
    pub prog: Id,
    pub env: Id,
    /// number of operator applications in the generated source (static)
    pub ops: u32,
    pub guards: u32,
    pub mutated: bool,
}

pub struct ProgGen<'a> {
    pub f: &'a mut Forest,
    pub r: &'a mut Rng,
    pub cfg: ProgCfg,
    /// (type, is big atom) of the env list items in the current scope
    env: Vec<Ty>,
    ops: u32,
    guards: u32,
    /// measure the cost of running (prog, env) under cfg.flags with given
    /// extra flags; provided by the caller (uses the real interpreter)
    pub measure: &'a dyn Fn(&Forest, Id, Id, Option<u32>) -> Option<u64>,
    pub points: &'a Points,
    in_guard_ext: Option<u32>,
}

/// pre-computed valid curve points and signatures (built once per process)
pub struct Points {
    pub g1: Vec<Vec<u8>>,
    pub g2: Vec<Vec<u8>>,
    /// (pubkey, msg32, sig64) valid for secp256k1 / secp256r1
    pub k1: Vec<(Vec<u8>, Vec<u8>, Vec<u8>)>,
    pub r1: Vec<(Vec<u8>, Vec<u8>, Vec<u8>)>,
    /// blobs of the right size that are NOT valid points
    pub bad_g1: Vec<Vec<u8>>,
    pub bad_g2: Vec<Vec<u8>>,
}

pub fn path_to_item(k: usize) -> i128 {
    (1i128 << (k + 1)) | ((1i128 << k) - 1)
}

impl<'a> ProgGen<'a> {
    pub fn new(
        f: &'a mut Forest,
        r: &'a mut Rng,
        cfg: ProgCfg,
        measure: &'a dyn Fn(&Forest, Id, Id, Option<u32>) -> Option<u64>,
        points: &'a Points,
    ) -> Self {
        ProgGen {
            f,
            r,
            cfg,
            env: Vec::new(),
            ops: 0,
            guards: 0,
            measure,
            points,
            in_guard_ext: None,
        }
    }

    fn q(&mut self, v: Id) -> Id {
        let one = self.f.atom(&[1]);
        self.f.pair(one, v)
    }

    fn op(&mut self, code: &[u8], args: &[Id]) -> Id {
        self.ops += 1;
        let o = self.f.atom(code);
        let l = self.f.list(args);
        self.f.pair(o, l)
    }

    fn op1(&mut self, code: u8, args: &[Id]) -> Id {
        self.op(&[code], args)
    }

    fn literal(&mut self, ty: Ty) -> Id {
        match ty {
            Ty::Int => {
                let b = gen_int_atom(self.r);
                self.f.atom(&b)
            }
            Ty::Bytes => {
                let max = if self.cfg.big_atoms { 2049 } else { 100 };
                let b = if self.cfg.big_atoms && self.r.chance(1, 3) {
                    let n = self.r.range(300, 2049) as usize;
                    self.r.bytes(n)
                } else {
                    gen_bytes_atom(self.r, max)
                };
                self.f.atom(&b)
            }
            Ty::Bool => {
                if self.r.chance(1, 2) {
                    self.f.nil()
                } else {
                    self.f.atom(&[1])
                }
            }
            Ty::Nil => self.f.nil(),
            Ty::G1 => {
                let p = if self.r.chance(1, 8) { self.r.pick(&self.points.bad_g1) } else { self.r.pick(&self.points.g1) }.clone();
                self.f.atom(&p)
            }
            Ty::G2 => {
                let p = if self.r.chance(1, 8) { self.r.pick(&self.points.bad_g2) } else { self.r.pick(&self.points.g2) }.clone();
                self.f.atom(&p)
            }
            Ty::List => {
                let n = self.r.below(5) as usize;
                let items: Vec<Id> = (0..n)
                    .map(|_| {
                        let t = *self.r.pick(&[Ty::Int, Ty::Bytes, Ty::Int, Ty::List]);
                        if t == Ty::List && self.r.chance(1, 2) {
                            self.f.nil()
                        } else {
                            self.literal(if t == Ty::List { Ty::Int } else { t })
                        }
                    })
                    .collect();
                self.f.list(&items)
            }
            Ty::Any => {
                let t = *self.r.pick(&[Ty::Int, Ty::Bytes, Ty::List, Ty::Bool]);
                self.literal(t)
            }
        }
    }

    fn env_ref(&mut self, ty: Ty) -> Option<Id> {
        let cands: Vec<usize> = self
            .env
            .iter()
            .enumerate()
            .filter(|(_, t)| {
                **t == ty
                    || ty == Ty::Any
                    || (ty == Ty::Bytes && **t == Ty::Int)
                    || (ty == Ty::Bool && (**t == Ty::Int || **t == Ty::Nil))
            })
            .map(|(i, _)| i)
            .collect();
        if cands.is_empty() {
            return None;
        }
        let k = *self.r.pick(&cands);
        let mut b = encode_int(path_to_item(k));
        if self.r.chance(1, 12) {
            // leading-zero path (non-canonical; must use the slow traverse path)
            b.insert(0, 0);
            if self.r.chance(1, 3) {
                b.insert(0, 0);
            }
        }
        Some(self.f.atom(&b))
    }

    fn small_int_expr(&mut self, lo: i128, hi: i128) -> Id {
        let v = lo + self.r.below((hi - lo + 1) as u64) as i128;
        let a = self.f.int(v);
        self.q(a)
    }

    fn args(&mut self, ty: Ty, n: usize, depth: u32) -> Vec<Id> {
        (0..n).map(|_| self.expr(ty, depth)).collect()
    }

    /// an expression (program fragment) that evaluates to a value of type `ty`
    pub fn expr(&mut self, ty: Ty, depth: u32) -> Id {
        let leaf = depth >= self.cfg.max_depth || self.r.chance(1, 4);
        if leaf {
            if self.r.chance(2, 5)
                && let Some(p) = self.env_ref(ty)
            {
                return p;
            }
            let l = self.literal(ty);
            return self.q(l);
        }
        let d = depth + 1;
        // occasional generic forms
        match self.r.below(24) {
            0 => {
                // (i cond a b)
                let c = self.expr(Ty::Bool, d);
                let x = self.expr(ty, d);
                let y = self.expr(ty, d);
                return self.op1(3, &[c, x, y]);
            }
            1 => {
                // (a (q . body) env') with a fresh env built from expressions
                return self.apply_form(ty, d);
            }
            2 => {
                // (f (c X Y))
                let x = self.expr(ty, d);
                let y = self.expr(Ty::Any, d);
                let c = self.op1(4, &[x, y]);
                return self.op1(5, &[c]);
            }
            3 if self.cfg.guards && ty != Ty::G1 && ty != Ty::G2 && depth <= 2 => {
                // guard result is nil: wrap (i (softfork ...) X X') -> type ty
                let g = self.guard(d);
                let x = self.expr(ty, d);
                let y = self.expr(ty, d);
                return self.op1(3, &[g, x, y]);
            }
            4 if self.cfg.unknown_ops && depth <= 3 => {
                let u = self.unknown_op(d);
                let x = self.expr(ty, d);
                let y = self.expr(ty, d);
                return self.op1(3, &[u, x, y]);
            }
            5 if self.cfg.recursion && depth <= 1 && matches!(ty, Ty::Int | Ty::Any) => {
                return if self.r.chance(1, 2) {
                    self.recursion_template()
                } else {
                    self.accumulator_loop()
                };
            }
            6 => {
                // ((X) . raw) form: operator applied to unevaluated args
                if let Some(e) = self.raw_apply(ty) {
                    return e;
                }
            }
            _ => {}
        }
        match ty {
            Ty::Int => self.int_expr(d),
            Ty::Bytes => self.bytes_expr(d),
            Ty::Bool => self.bool_expr(d),
            Ty::List => self.list_expr(d),
            Ty::Any => {
                let t = *self.r.pick(&[Ty::Int, Ty::Bytes, Ty::Bool, Ty::List, Ty::Int]);
                self.expr(t, depth)
            }
            Ty::G1 => self.g1_expr(d),
            Ty::G2 => self.g2_expr(d),
            Ty::Nil => self.nil_expr(d),
        }
    }

    fn raw_apply(&mut self, ty: Ty) -> Option<Id> {
        // ((op) arg...) : arguments are passed unevaluated
        let (code, args): (u8, Vec<Id>) = match ty {
            Ty::Int => {
                let n = self.r.below(4) as usize;
                let a = (0..n).map(|_| self.literal(Ty::Int)).collect();
                (*self.r.pick(&[16u8, 17, 18, 24, 25, 26]), a)
            }
            Ty::Bytes => {
                let n = self.r.below(4) as usize;
                let a = (0..n).map(|_| self.literal(Ty::Bytes)).collect();
                (*self.r.pick(&[11u8, 14]), a)
            }
            Ty::Bool => {
                let a = vec![self.literal(Ty::Int), self.literal(Ty::Int)];
                (*self.r.pick(&[9u8, 10, 21]), a)
            }
            _ => return None,
        };
        self.ops += 1;
        let o = self.f.atom(&[code]);
        let tail = if self.r.chance(1, 10) {
            // inner list with non-nil terminator
            self.f.atom(&[5])
        } else {
            self.f.nil()
        };
        let inner = self.f.pair(o, tail);
        let argl = if self.r.chance(1, 12) {
            let t = self.f.atom(&[7]);
            self.f.list_with_tail(&args, t)
        } else {
            self.f.list(&args)
        };
        Some(self.f.pair(inner, argl))
    }

    fn apply_form(&mut self, ty: Ty, d: u32) -> Id {
        let n = self.r.range(1, 4) as usize;
        let tys: Vec<Ty> = (0..n)
            .map(|_| *self.r.pick(&[Ty::Int, Ty::Bytes, Ty::Int, Ty::List, Ty::Bool]))
            .collect();
        // env expression evaluated in the outer scope
        let items: Vec<Id> = tys.iter().map(|t| self.expr(*t, d + 1)).collect();
        let mut envx = {
            let n = self.f.nil();
            self.q(n)
        };
        for it in items.iter().rev() {
            envx = self.op1(4, &[*it, envx]);
        }
        let saved = std::mem::replace(&mut self.env, tys);
        let body = self.expr(ty, d);
        self.env = saved;
        let qb = self.q(body);
        self.op1(2, &[qb, envx])
    }

    /// tail-recursive loop threading an accumulator:
    /// loop(acc, n) = if n == 0 then acc else loop(STEP(acc), n - 1)
    pub fn accumulator_loop(&mut self) -> Id {
        let piece_len = *self.r.pick(&[1usize, 2, 3, 5, 8, 20, 40, 100]);
        let piece = self.r.bytes(piece_len);
        let piece = self.f.atom(&piece);
        let k = self.literal(Ty::Int);
        let steps = [
            "(concat 5 (q . $piece))",
            "(concat (q . $piece) 5)",
            "(concat 5 (q . $piece) 5)",
            "(+ 5 (q . $k))",
            "(- 5 (q . $k))",
            "(* 5 (q . $k))",
            "(c (q . $piece) 5)",
            "(c 5 (q . $piece))",
            "(sha256 5 (q . $piece))",
            "(logior (lsh 5 (q . 8)) (q . $k))",
            "(substr (concat 5 (q . $piece)) (q . 1))",
            "(concat (substr 5 (q . 0) (q . 1)) (q . $piece) 5)",
            "(strlen (concat 5 (q . $piece)))",
            "(i (l 5) (c (q . $piece) 5) (concat 5 (q . $piece)))",
        ];
        let step = *self.r.pick(&steps);
        let n = *self.r.pick(&[0i128, 1, 2, 5, 10, 30, 60, 120]);
        let acc0 = match self.r.below(4) {
            0 => self.f.nil(),
            1 => self.literal(Ty::Bytes),
            2 => self.literal(Ty::Int),
            _ => self.f.atom(&[0x61; 20]),
        };
        let nn = self.f.int(n);
        let text = format!(
            "(a (q 2 2 (c 2 (c 5 (c 11 ())))) (c (q 2 (i (= 11 ()) (q . 5) (q 2 2 (c 2 (c {step} (c (- 11 (q . 1)) ()))))) 1) (c (q . $acc0) (c (q . $n) ()))))"
        );
        self.ops += 12;
        crate::sexp::parse(self.f, &text, &[("piece", piece), ("k", k), ("acc0", acc0), ("n", nn)])
    }

    fn recursion_template(&mut self) -> Id {
        // (a (q 2 2 (c 2 (c 5 (c 11 ())))) (c (q 2 (i (= 11 ()) (q 1 . 1) (q OP 5 (a 2 (c 2 (c 5 (c (- 11 (q . 1)) ())))))) 1) (c X (c N ()))))
        // i.e. fold OP over N iterations starting at 1
        let opc = *self.r.pick(&[16u8, 18, 17, 25, 14]);
        let x = self.literal(Ty::Int);
        let n = self.r.range(0, 24) as i128;
        let f = &mut *self.f;
        let a = |f: &mut Forest, v: i128| f.int(v);
        let two = a(f, 2);
        let five = a(f, 5);
        let eleven = a(f, 11);
        let one = a(f, 1);
        let nil = f.nil();
        // (c 11' ()) pieces for the recursive call: (c 2 (c 5 (c (- 11 (q . 1)) ())))
        let q1 = {
            let o = a(f, 1);
            let v = a(f, 1);
            f.pair(o, v)
        };
        let minus = {
            let o = a(f, 17);
            f.list(&[o, eleven, q1])
        };
        let c = |f: &mut Forest, x: Id, y: Id| {
            let o = f.int(4);
            f.list(&[o, x, y])
        };
        let qnil = {
            let o = a(f, 1);
            f.pair(o, nil)
        };
        let c3 = c(f, minus, qnil);
        let c2 = c(f, five, c3);
        let c1 = c(f, two, c2);
        let rec = {
            let o = a(f, 2);
            f.list(&[o, two, c1])
        };
        // (q OP 5 rec)  == quoted program (OP 5 (a 2 ...))
        let body_op = {
            let o = f.atom(&[opc]);
            f.list(&[o, five, rec])
        };
        let q_body = {
            let o = a(f, 1);
            f.pair(o, body_op)
        };
        let q_one = {
            let o = a(f, 1);
            let inner = f.pair(one, one);
            f.pair(o, inner)
        };
        let eq = {
            let o = a(f, 9);
            f.list(&[o, eleven, qnil])
        };
        let iff = {
            let o = a(f, 3);
            f.list(&[o, eq, q_one, q_body])
        };
        let inner_prog = {
            let o = a(f, 2);
            f.list(&[o, iff, one])
        };
        let q_inner = {
            let o = a(f, 1);
            f.pair(o, inner_prog)
        };
        // main: (a (q 2 2 (c 2 (c 5 (c 11 ())))) (c q_inner (c X (c N ()))))
        let m3 = c(f, eleven, qnil);
        let m2 = c(f, five, m3);
        let m1 = c(f, two, m2);
        let main_body = {
            let o = a(f, 2);
            f.list(&[o, two, m1])
        };
        let q_main = {
            let o = a(f, 1);
            f.pair(o, main_body)
        };
        let qx = {
            let o = a(f, 1);
            f.pair(o, x)
        };
        let nn = a(f, n);
        let qn = {
            let o = a(f, 1);
            f.pair(o, nn)
        };
        let e3 = c(f, qn, qnil);
        let e2 = c(f, qx, e3);
        let e1 = c(f, q_inner, e2);
        self.ops += 10;
        let o = self.f.int(2);
        self.f.list(&[o, q_main, e1])
    }

    fn int_expr(&mut self, d: u32) -> Id {
        match self.r.below(20) {
            0..=2 => {
                let n = self.r.below(5) as usize;
                let a = self.args(Ty::Int, n, d);
                self.op1(16, &a)
            }
            3..=4 => {
                let n = self.r.below(4) as usize;
                let a = self.args(Ty::Int, n, d);
                self.op1(17, &a)
            }
            5..=6 => {
                let n = self.r.below(4) as usize;
                let a = self.args(Ty::Int, n, d);
                self.op1(18, &a)
            }
            7 => {
                let a = self.args(Ty::Int, 2, d);
                self.op1(19, &a)
            }
            8 => {
                let a = self.args(Ty::Int, 2, d);
                let code = if self.cfg.classic { 19 } else { 61 };
                self.op1(code, &a)
            }
            9 => {
                let a = self.args(Ty::Int, 2, d);
                let dm = self.op1(20, &a);
                let sel = if self.r.chance(1, 2) { 5 } else { 6 };
                self.op1(sel, &[dm])
            }
            10 => {
                let x = self.expr(Ty::Int, d);
                let s = self.small_int_expr(-70, 300);
                self.op1(22, &[x, s])
            }
            11 => {
                let x = self.expr(Ty::Int, d);
                let s = self.small_int_expr(-70, 300);
                self.op1(23, &[x, s])
            }
            12..=14 => {
                let n = self.r.below(4) as usize;
                let a = self.args(Ty::Int, n, d);
                let code = *self.r.pick(&[24u8, 25, 26]);
                self.op1(code, &a)
            }
            15 => {
                let a = self.args(Ty::Int, 1, d);
                self.op1(27, &a)
            }
            16 => {
                let a = self.args(Ty::Bytes, 1, d);
                self.op1(13, &a)
            }
            17 if !self.cfg.classic => {
                let b = self.expr(Ty::Int, d);
                let e = self.small_int_expr(0, 300);
                let m = self.expr(Ty::Int, d);
                self.op1(60, &[b, e, m])
            }
            _ => {
                let n = self.r.range(1, 3) as usize;
                let a = self.args(Ty::Int, n, d);
                self.op1(16, &a)
            }
        }
    }

    fn bytes_expr(&mut self, d: u32) -> Id {
        match self.r.below(16) {
            0..=3 => {
                let n = self.r.below(4) as usize;
                let a = self.args(Ty::Bytes, n, d);
                self.op1(11, &a)
            }
            4 => {
                // (sha256 (q . 1) small) -> precomputed hash fast path
                let one = self.small_int_expr(1, 1);
                let v = self.small_int_expr(0, 45);
                self.op1(11, &[one, v])
            }
            5..=8 => {
                let n = self.r.below(4) as usize;
                let a = self.args(Ty::Bytes, n, d);
                self.op1(14, &a)
            }
            9..=10 => {
                let x = self.expr(Ty::Bytes, d);
                let s = self.small_int_expr(0, 6);
                if self.r.chance(1, 2) {
                    self.op1(12, &[x, s])
                } else {
                    let e = self.small_int_expr(0, 40);
                    self.op1(12, &[x, s, e])
                }
            }
            11 if !self.cfg.classic => {
                let p = self.r.bytes(32);
                let h = self.r.bytes(32);
                let p = self.f.atom(&p);
                let h = self.f.atom(&h);
                let (p, h) = (self.q(p), self.q(h));
                let amt = if self.r.chance(3, 4) {
                    let v = self.r.u64() >> self.r.below(64);
                    let a = self.f.int(v as i128);
                    self.q(a)
                } else {
                    self.expr(Ty::Int, d)
                };
                self.op1(48, &[p, h, amt])
            }
            12 if !self.cfg.classic
                && (self.cfg.keccak_outside || self.in_guard_ext == Some(1)) =>
            {
                let n = self.r.below(4) as usize;
                let a = self.args(Ty::Bytes, n, d);
                self.op1(62, &a)
            }
            13 if !self.cfg.classic && self.cfg.sha256tree => {
                let a = self.args(Ty::Any, 1, d);
                self.op1(63, &a)
            }
            14 => self.int_expr(d),
            _ => {
                let n = self.r.range(1, 3) as usize;
                let a = self.args(Ty::Bytes, n, d);
                self.op1(14, &a)
            }
        }
    }

    fn bool_expr(&mut self, d: u32) -> Id {
        match self.r.below(12) {
            0..=1 => {
                let a = self.args(Ty::Bytes, 2, d);
                self.op1(9, &a)
            }
            2 => {
                let a = self.args(Ty::Bytes, 2, d);
                self.op1(10, &a)
            }
            3..=5 => {
                let a = self.args(Ty::Int, 2, d);
                self.op1(21, &a)
            }
            6 => {
                let a = self.args(Ty::Any, 1, d);
                self.op1(32, &a)
            }
            7 => {
                let n = self.r.below(4) as usize;
                let a = self.args(Ty::Any, n, d);
                self.op1(33, &a)
            }
            8 => {
                let n = self.r.below(4) as usize;
                let a = self.args(Ty::Any, n, d);
                self.op1(34, &a)
            }
            9 => {
                let a = self.args(Ty::Any, 1, d);
                self.op1(7, &a)
            }
            10 => {
                // (= X X) on equal values in possibly different representation
                let x = self.expr(Ty::Bytes, d);
                self.op1(9, &[x, x])
            }
            _ => self.nil_expr(d),
        }
    }

    fn list_expr(&mut self, d: u32) -> Id {
        match self.r.below(6) {
            0..=2 => {
                let x = self.expr(Ty::Any, d);
                let y = self.expr(Ty::List, d);
                self.op1(4, &[x, y])
            }
            3 => {
                let a = self.args(Ty::Int, 2, d);
                self.op1(20, &a)
            }
            4 => {
                let x = self.expr(Ty::Any, d);
                let y = self.expr(Ty::List, d);
                let c = self.op1(4, &[x, y]);
                self.op1(6, &[c])
            }
            _ => {
                let l = self.literal(Ty::List);
                self.q(l)
            }
        }
    }

    fn g1_expr(&mut self, d: u32) -> Id {
        if !self.cfg.bls {
            let l = self.literal(Ty::G1);
            return self.q(l);
        }
        match self.r.below(8) {
            0..=1 => {
                let a = self.args(Ty::Int, 1, d);
                self.op1(30, &a)
            }
            2 => {
                let n = self.r.below(3) as usize;
                let a = self.args(Ty::G1, n, d + 1);
                self.op1(29, &a)
            }
            3 => {
                let n = self.r.below(3) as usize;
                let a = self.args(Ty::G1, n, d + 1);
                self.op1(49, &a)
            }
            4 => {
                let p = self.expr(Ty::G1, d + 1);
                let s = self.expr(Ty::Int, d + 1);
                self.op1(50, &[p, s])
            }
            5 => {
                let p = self.expr(Ty::G1, d + 1);
                self.op1(51, &[p])
            }
            6 => {
                let m = self.expr(Ty::Bytes, d + 1);
                if self.r.chance(1, 2) {
                    self.op1(56, &[m])
                } else {
                    let dst = self.expr(Ty::Bytes, d + 1);
                    self.op1(56, &[m, dst])
                }
            }
            _ => {
                let l = self.literal(Ty::G1);
                self.q(l)
            }
        }
    }

    fn g2_expr(&mut self, d: u32) -> Id {
        if !self.cfg.bls {
            let l = self.literal(Ty::G2);
            return self.q(l);
        }
        match self.r.below(7) {
            0 => {
                let n = self.r.below(3) as usize;
                let a = self.args(Ty::G2, n, d + 1);
                self.op1(52, &a)
            }
            1 => {
                let n = self.r.below(3) as usize;
                let a = self.args(Ty::G2, n, d + 1);
                self.op1(53, &a)
            }
            2 => {
                let p = self.expr(Ty::G2, d + 1);
                let s = self.expr(Ty::Int, d + 1);
                self.op1(54, &[p, s])
            }
            3 => {
                let p = self.expr(Ty::G2, d + 1);
                self.op1(55, &[p])
            }
            4 => {
                let m = self.expr(Ty::Bytes, d + 1);
                if self.r.chance(1, 2) {
                    self.op1(57, &[m])
                } else {
                    let dst = self.expr(Ty::Bytes, d + 1);
                    self.op1(57, &[m, dst])
                }
            }
            _ => {
                let l = self.literal(Ty::G2);
                self.q(l)
            }
        }
    }

    /// expressions that evaluate to nil (when they succeed)
    fn nil_expr(&mut self, d: u32) -> Id {
        let mut choices: Vec<u32> = vec![0];
        if self.cfg.guards {
            choices.push(1);
            choices.push(1);
        }
        if self.cfg.unknown_ops {
            choices.push(2);
        }
        if self.cfg.bls && !self.cfg.classic {
            choices.push(3);
            choices.push(4);
        }
        if self.cfg.secp && !self.cfg.classic {
            choices.push(5);
        }
        match *self.r.pick(&choices) {
            1 => self.guard(d),
            2 => self.unknown_op(d),
            3 => {
                // pairing identity: e(P,Q) * e(-P,Q) == 1
                let p = self.expr(Ty::G1, d + 2);
                let q = self.expr(Ty::G2, d + 2);
                let np = self.op1(51, &[p]);
                if self.r.chance(1, 8) {
                    // wrong: not an identity (fails)
                    self.op1(58, &[p, q])
                } else {
                    self.op1(58, &[p, q, np, q])
                }
            }
            4 => {
                // (bls_verify (g2_multiply (g2_map (concat PK MSG)) SK) PK MSG)
                let sk = self.r.range(1, 1 << 40) as i128;
                let sk_a = self.f.int(sk);
                let sk_q = self.q(sk_a);
                let pk = self.op1(30, &[sk_q]);
                let msg = self.literal(Ty::Bytes);
                let msg_q = self.q(msg);
                let cat = self.op1(14, &[pk, msg_q]);
                let h = self.op1(57, &[cat]);
                let sig = self.op1(54, &[h, sk_q]);
                if self.r.chance(1, 8) {
                    let other = self.literal(Ty::Bytes);
                    let oq = self.q(other);
                    self.op1(59, &[sig, pk, oq])
                } else {
                    self.op1(59, &[sig, pk, msg_q])
                }
            }
            5 => self.secp_call(),
            _ => {
                let n = self.f.nil();
                self.q(n)
            }
        }
    }

    pub fn secp_call(&mut self) -> Id {
        let k1 = self.r.chance(1, 2);
        let (pk, msg, sig) = if k1 {
            self.r.pick(&self.points.k1).clone()
        } else {
            self.r.pick(&self.points.r1).clone()
        };
        let mut sig = sig;
        if self.r.chance(1, 8) {
            let kind = self.r.below(3);
            sig = signature_twin(&sig, k1, kind);
        } else if self.r.chance(1, 6) {
            let i = self.r.usize(sig.len());
            sig[i] ^= 1 << self.r.below(8);
        }
        let a: Vec<Id> = [pk, msg, sig]
            .iter()
            .map(|b| {
                let x = self.f.atom(b);
                self.q(x)
            })
            .collect();
        let four_byte = !self.cfg.flags.contains(ClvmFlags::ENABLE_SECP_OPS) || self.r.chance(1, 2);
        if four_byte {
            let mut code: [u8; 4] = if k1 {
                [0x13, 0xd6, 0x1f, 0x00]
            } else {
                [0x1c, 0x3a, 0x8f, 0x00]
            };
            // the neighbourhood of the assigned opcodes: same multiplier, other
            // cost-function / ignored bits -- these are plain unknown operators
            if self.cfg.unknown_ops && self.r.chance(1, 4) {
                code[3] = match self.r.below(5) {
                    0 => 0x40,
                    1 => 0x80,
                    2 => 0xc0,
                    3 => self.r.range(1, 0x3f) as u8,
                    _ => self.r.u8(),
                };
                if self.r.chance(1, 6) {
                    code[2] ^= 1;
                }
            }
            self.op(&code, &a)
        } else {
            self.op1(if k1 { 64 } else { 65 }, &a)
        }
    }

    pub fn unknown_op(&mut self, d: u32) -> Id {
        // opcodes with no assigned meaning (for every flag set): avoid 1-byte
        // values the dialect assigns; multi-byte opcodes are always unknown
        // except the two 4-byte secp ones
        let code: Vec<u8> = match self.r.below(6) {
            0 => vec![*self.r.pick(&[15u8, 28, 31, 35, 37, 40, 47, 66, 0x7f, 0x80, 0xbf, 0xc0, 0xff])],
            1 => vec![self.r.u8() & 0x3f, self.r.u8()],
            2 => vec![0, self.r.u8(), self.r.u8()],
            3 => {
                let n = self.r.range(2, 5) as usize;
                let mut b = self.r.bytes(n);
                b[0] &= 0x0f;
                if b.len() == 4 && (b == [0x13, 0xd6, 0x1f, 0x00] || b == [0x1c, 0x3a, 0x8f, 0x00]) {
                    b[3] = 1;
                }
                b
            }
            4 => vec![0xff, 0xff, self.r.u8()],
            _ => vec![self.r.u8() & 0x7, self.r.u8() | 0x40],
        };
        let n = self.r.below(4) as usize;
        let a = self.args(Ty::Bytes, n, d + 1);
        self.op(&code, &a)
    }

    /// `(softfork (q . COST) (q . EXT) (q . PROG) (q . ENV))`
    pub fn guard(&mut self, d: u32) -> Id {
        self.guards += 1;
        let ext: u32 = match self.r.below(10) {
            0..=3 => 0,
            4..=7 => 1,
            8 => 2,
            _ => self.r.u32(),
        };
        // inner program in its own scope with a quoted env
        let tys: Vec<Ty> = (0..self.r.range(0, 3))
            .map(|_| *self.r.pick(&[Ty::Int, Ty::Bytes, Ty::Int]))
            .collect();
        let env_items: Vec<Id> = tys.iter().map(|t| self.literal(*t)).collect();
        let env_val = self.f.list(&env_items);
        let saved = std::mem::replace(&mut self.env, tys);
        let saved_ext = self.in_guard_ext;
        self.in_guard_ext = if ext <= 1 { Some(ext) } else { saved_ext };
        let inner = self.expr(Ty::Any, d + 1);
        self.in_guard_ext = saved_ext;
        self.env = saved;

        let new_model = self.cfg.flags.contains(ClvmFlags::NEW_COST_MODEL);
        let guard_cost = if new_model { 500 } else { 140 };
        let measured = (self.measure)(self.f, inner, env_val, Some(ext));
        let mut declared: u64 = match measured {
            Some(c) => c + guard_cost,
            None => self.r.range(1, 5000),
        };
        match self.r.below(14) {
            0 => declared = declared.saturating_add(1),
            1 => declared = declared.saturating_sub(1).max(1),
            2 => declared = 0,
            _ => {}
        }
        let c = self.f.int(declared as i128);
        let cq = self.q(c);
        let e = self.f.int(ext as i128);
        let eq = self.q(e);
        let pq = self.q(inner);
        let envq = self.q(env_val);
        match self.r.below(16) {
            0 => self.op1(36, &[cq, eq, pq]), // too few args (malformed)
            1 => {
                let x = self.f.nil();
                let xq = self.q(x);
                self.op1(36, &[cq, eq, pq, envq, xq]) // too many
            }
            2 => {
                // extension given as a pair (malformed)
                let p = self.f.pair(e, e);
                let pq2 = self.q(p);
                self.op1(36, &[cq, pq2, pq, envq])
            }
            _ => self.op1(36, &[cq, eq, pq, envq]),
        }
    }

    /// generate a whole program and environment
    pub fn program(&mut self) -> Prog {
        let n = self.r.range(0, 5) as usize;
        let tys: Vec<Ty> = (0..n)
            .map(|_| {
                *self
                    .r
                    .pick(&[Ty::Int, Ty::Int, Ty::Bytes, Ty::Bytes, Ty::List, Ty::Bool])
            })
            .collect();
        let items: Vec<Id> = tys.iter().map(|t| self.literal(*t)).collect();
        let env = if self.r.chance(1, 20) {
            let t = self.f.atom(&[9]);
            self.f.list_with_tail(&items, t)
        } else {
            self.f.list(&items)
        };
        self.env = tys;
        self.ops = 0;
        self.guards = 0;
        let ty = *self
            .r
            .pick(&[Ty::Int, Ty::Int, Ty::Bytes, Ty::Bool, Ty::Any, Ty::List, Ty::Nil]);
        let mut prog = self.expr(ty, 0);
        let mut mutated = false;
        if self.r.below(16) < self.cfg.mutate_16 {
            prog = mutate(self.f, self.r, prog);
            mutated = true;
        }
        Prog {
            prog,
            env,
            ops: self.ops,
            guards: self.guards,
            mutated,
        }
    }
}

/// structural mutation: rebuilds the path from the root to one random node
/// and replaces that node
pub fn mutate(f: &mut Forest, r: &mut Rng, root: Id) -> Id {
    // walk down randomly
    let mut path: Vec<(Id, bool)> = Vec::new();
    let mut cur = root;
    loop {
        match f.get(cur).clone() {
            MNode::Pair(l, rr) => {
                if r.chance(1, 6) {
                    break;
                }
                let right = r.chance(1, 2);
                path.push((cur, right));
                cur = if right { rr } else { l };
            }
            MNode::Atom(_) => break,
        }
    }
    let replacement = match r.below(9) {
        0 => f.nil(),
        1 => {
            let b = gen_atom(r, 40);
            f.atom(&b)
        }
        2 => {
            // turn into a pair
            let x = f.atom(&[r.u8()]);
            f.pair(cur, x)
        }
        3 => match f.get(cur).clone() {
            MNode::Pair(l, _) => l,
            _ => f.atom(&[8]),
        },
        4 => match f.get(cur).clone() {
            MNode::Pair(_, rr) => rr,
            _ => f.atom(&[0x80]),
        },
        5 => {
            // opcode-like small atom
            f.atom(&[r.below(70) as u8])
        }
        6 => {
            // (x) raise
            let o = f.atom(&[8]);
            let n = f.nil();
            f.pair(o, n)
        }
        7 => match f.get(cur).clone() {
            MNode::Pair(l, rr) => f.pair(rr, l),
            _ => f.atom(&[0xff, 0xff]),
        },
        _ => {
            let b = vec![r.u8(), r.u8(), r.u8()];
            f.atom(&b)
        }
    };
    let mut node = replacement;
    for (parent, right) in path.iter().rev() {
        if let MNode::Pair(l, rr) = f.get(*parent).clone() {
            node = if *right { f.pair(l, node) } else { f.pair(node, rr) };
        }
    }
    node
}

/// untyped random tree used as a program (for totality checks)
pub fn gen_wild_program(r: &mut Rng, f: &mut Forest, size: usize) -> Id {
    let mut pool: Vec<Id> = Vec::new();
    for _ in 0..(size / 2).max(2) {
        let b = match r.below(6) {
            0..=2 => vec![r.below(70) as u8],
            3 => vec![],
            4 => gen_int_atom(r),
            _ => gen_bytes_atom(r, 50),
        };
        pool.push(f.atom(&b));
    }
    let mut last = pool[0];
    for _ in 0..size {
        let l = *r.pick(&pool);
        let rr = *r.pick(&pool);
        last = f.pair(l, rr);
        pool.push(last);
    }
    last
}

// ---------------------------------------------------------------- byte strings

pub const DENSE_ALPHABET: &[u8] = &[
    0xff, 0xfe, 0x80, 0x00, 0x01, 0x7f, 0x81, 0xbf, 0xc0, 0xfb, 0xfc, 0xfd,
];

/// the i-th string of length `len` over `alpha` (base-|alpha| counting)
pub fn nth_string(alpha: &[u8], len: usize, mut i: u64) -> Vec<u8> {
    let mut v = vec![0u8; len];
    for k in (0..len).rev() {
        v[k] = alpha[(i % alpha.len() as u64) as usize];
        i /= alpha.len() as u64;
    }
    v
}

/// mutate a valid serialisation at random positions
pub fn mutate_bytes(r: &mut Rng, b: &[u8]) -> Vec<u8> {
    let mut v = b.to_vec();
    let n = r.range(1, 3);
    for _ in 0..n {
        if v.is_empty() {
            v.push(r.u8());
            continue;
        }
        let i = r.usize(v.len());
        match r.below(8) {
            0 => v.truncate(i),
            1 => v[i] = *r.pick(DENSE_ALPHABET),
            2 => v[i] ^= 1 << r.below(8),
            3 => v.insert(i, *r.pick(DENSE_ALPHABET)),
            4 => {
                v.remove(i);
            }
            5 => v[i] = v[i].wrapping_add(1),
            6 => v[i] = v[i].wrapping_sub(1),
            _ => {
                let k = r.range(1, 4) as usize;
                let extra = r.bytes(k);
                for (j, e) in extra.iter().enumerate() {
                    v.insert((i + j).min(v.len()), *e);
                }
            }
        }
    }
    v
}
