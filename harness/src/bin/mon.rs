use clvm_verif::report::Ctx;

#[global_allocator]
static GLOBAL: clvm_verif::meter::Meter = clvm_verif::meter::Meter;

fn main() {
    let args: Vec<String> = std::env::args().skip(1).collect();
    if args.is_empty() {
        eprintln!("usage: mon <property> [--seed S] [--shard i/n] [--tier quick|thorough] [--case id] [--out file] [--log file] [--known file]");
        std::process::exit(2);
    }
    clvm_verif::outcome::quiet_panics();
    let mut ctx = Ctx::from_args(&args);
    // hard stop: an orphaned or runaway shard must not live forever
    let hard = (ctx.budget_s * 6.0 + 900.0) as u64;
    if ctx.only_case.is_none() && !cfg!(miri) {
        std::thread::spawn(move || {
            std::thread::sleep(std::time::Duration::from_secs(hard));
            eprintln!("hard wall-clock stop after {hard}s");
            std::process::exit(4);
        });
    }
    clvm_verif::mon::dispatch(&mut ctx);
    std::process::exit(ctx.finish());
}
