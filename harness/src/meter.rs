//! Counting global allocator: lets a monitor ask for the peak number of bytes
//! requested from the system allocator while a closure ran.

use std::alloc::{GlobalAlloc, Layout, System};
use std::sync::atomic::{AtomicUsize, Ordering};

pub struct Meter;

static CUR: AtomicUsize = AtomicUsize::new(0);
static PEAK: AtomicUsize = AtomicUsize::new(0);
static BIGGEST: AtomicUsize = AtomicUsize::new(0);

unsafe impl GlobalAlloc for Meter {
    unsafe fn alloc(&self, l: Layout) -> *mut u8 {
        let p = unsafe { System.alloc(l) };
        if !p.is_null() {
            let c = CUR.fetch_add(l.size(), Ordering::Relaxed) + l.size();
            PEAK.fetch_max(c, Ordering::Relaxed);
            BIGGEST.fetch_max(l.size(), Ordering::Relaxed);
        }
        p
    }
    unsafe fn dealloc(&self, p: *mut u8, l: Layout) {
        CUR.fetch_sub(l.size(), Ordering::Relaxed);
        unsafe { System.dealloc(p, l) }
    }
    unsafe fn alloc_zeroed(&self, l: Layout) -> *mut u8 {
        let p = unsafe { System.alloc_zeroed(l) };
        if !p.is_null() {
            let c = CUR.fetch_add(l.size(), Ordering::Relaxed) + l.size();
            PEAK.fetch_max(c, Ordering::Relaxed);
            BIGGEST.fetch_max(l.size(), Ordering::Relaxed);
        }
        p
    }
    unsafe fn realloc(&self, p: *mut u8, l: Layout, new_size: usize) -> *mut u8 {
        let q = unsafe { System.realloc(p, l, new_size) };
        if !q.is_null() {
            if new_size >= l.size() {
                let c = CUR.fetch_add(new_size - l.size(), Ordering::Relaxed) + (new_size - l.size());
                PEAK.fetch_max(c, Ordering::Relaxed);
            } else {
                CUR.fetch_sub(l.size() - new_size, Ordering::Relaxed);
            }
            BIGGEST.fetch_max(new_size, Ordering::Relaxed);
        }
        q
    }
}

/// (result, peak additional bytes in use while `f` ran, largest single request)
pub fn measure<T>(f: impl FnOnce() -> T) -> (T, usize, usize) {
    let base = CUR.load(Ordering::Relaxed);
    PEAK.store(base, Ordering::Relaxed);
    BIGGEST.store(0, Ordering::Relaxed);
    let r = f();
    let peak = PEAK.load(Ordering::Relaxed).saturating_sub(base);
    (r, peak, BIGGEST.load(Ordering::Relaxed))
}
