//! C12 — allocator accounting is representation independent (reference model
//!        compared after every operation)
//! C13 — allocator limits are enforced exactly (lock-step limited/unlimited
//!        allocators, headroom sweeps for programs and decoders)
//! C14 — nodes are immutable, integers canonical (content model re-read after
//!        every restore; exhaustive short byte strings / integer ranges)

use crate::genr::{gen_atom, gen_flags, gen_int_atom, ProgCfg};
use crate::model::{encode_int, Forest};
use crate::outcome::{counts, Counts};
use crate::random_cases;
use crate::report::{Ctx, DIRECTED};
use crate::rng::Rng;
use clvmr::allocator::{fits_in_small_atom, Allocator, Checkpoint, MaybeRestore, NodePtr, ObjectType, SExp, TransparentCheckpoint};
use clvmr::chia_dialect::ClvmFlags;
use clvmr::error::EvalErr;
use num_bigint::BigInt;
use serde_json::{json, Value};

pub const MAX_ATOMS: usize = 62_500_000;
pub const MAX_PAIRS: usize = 62_500_000;

#[derive(Clone, Debug)]
enum MVal {
    Atom(Vec<u8>),
    Pair(usize, usize),
}

struct Live {
    /// node in the allocator under test
    n: NodePtr,
    /// node in the unlimited shadow allocator (lock-step mode)
    shadow: NodePtr,
    v: MVal,
}

enum Cp {
    Full(Checkpoint, Option<Checkpoint>, Counts, usize),
    Transparent(TransparentCheckpoint, Option<TransparentCheckpoint>, usize),
}

struct Hist<'c> {
    ctx: &'c mut Ctx,
    a: Allocator,
    /// unlimited shadow executing the same history (C13 mode)
    shadow: Option<Allocator>,
    heap_limit: usize,
    live: Vec<Live>,
    cps: Vec<Cp>,
    model: Counts,
    log: Vec<String>,
    resynced: bool,
    ops_done: u64,
    saw_restore: bool,
    saw_view: bool,
    saw_fail: bool,
    saw_success_near_cap: bool,
    prop: &'static str,
}

fn minimal_int_bytes(v: &BigInt) -> Vec<u8> {
    // independent minimal two's complement encoder
    use num_traits::Zero;
    if v.is_zero() {
        return vec![];
    }
    let mut b = v.to_signed_bytes_be();
    while b.len() > 1 {
        if (b[0] == 0 && b[1] & 0x80 == 0) || (b[0] == 0xff && b[1] & 0x80 != 0) {
            b.remove(0);
        } else {
            break;
        }
    }
    b
}

/// independent statement of "minimal encoding of a value below 2^26"
pub fn model_small(b: &[u8]) -> Option<u32> {
    if b.is_empty() {
        return Some(0);
    }
    if b.len() > 4 || b[0] & 0x80 != 0 {
        return None;
    }
    if b[0] == 0 && (b.len() == 1 || b[1] & 0x80 == 0) {
        return None;
    }
    let mut v: u64 = 0;
    for x in b {
        v = (v << 8) | *x as u64;
    }
    if v < (1 << 26) { Some(v as u32) } else { None }
}

impl<'c> Hist<'c> {
    fn fail(&mut self, sig: &str, detail: Value) {
        let keep = if self.ctx.only_case.is_some() { 100_000 } else { 12 };
        let tail: Vec<String> = self.log.iter().rev().take(keep).rev().cloned().collect();
        self.ctx.violation(sig, json!({"detail": detail, "last_ops": tail, "ops_done": self.ops_done}));
    }

    fn atoms_live(&self) -> Vec<usize> {
        (0..self.live.len()).filter(|i| matches!(self.live[*i].v, MVal::Atom(_))).collect()
    }

    /// compare the counters with the model after an operation
    fn check_counts(&mut self, what: &str, known_sig: Option<&str>) {
        let c = counts(&self.a);
        if c != self.model {
            let sig = known_sig.unwrap_or("accounting-mismatch");
            if self.prop == "C12" {
                let d = json!({"op": what, "model": self.model.to_json(), "actual": c.to_json()});
                self.fail(sig, d);
            }
            // resync so that later operations are still checked
            self.model = c;
            self.resynced = true;
        }
        if self.prop == "C13" {
            let c = counts(&self.a);
            if c.atoms > MAX_ATOMS || c.pairs > MAX_PAIRS || c.heap > self.heap_limit {
                let d = json!({"op": what, "counts": c.to_json(), "heap_limit": self.heap_limit});
                self.fail("cap-exceeded", d);
            }
        }
    }

    /// re-read every live node through the public accessors (C14)
    fn check_contents(&mut self, why: &str) {
        let mut bad: Option<Value> = None;
        for (i, l) in self.live.iter().enumerate() {
            match (&l.v, self.a.sexp(l.n)) {
                (MVal::Atom(b), SExp::Atom) => {
                    let got = self.a.atom(l.n);
                    if got.as_ref() != b.as_slice() || self.a.atom_len(l.n) != b.len() {
                        bad = Some(json!({"node": i, "expected": hex::encode(b), "got": hex::encode(got.as_ref())}));
                        break;
                    }
                    let sm = self.a.small_number(l.n);
                    if sm != model_small(b) {
                        bad = Some(json!({"node": i, "bytes": hex::encode(b), "small_number": format!("{sm:?}"), "expected": format!("{:?}", model_small(b))}));
                        break;
                    }
                    if b.len() <= 64 {
                        let n = self.a.number(l.n);
                        let exp = if b.is_empty() { BigInt::from(0) } else { BigInt::from_signed_bytes_be(b) };
                        if n != exp {
                            bad = Some(json!({"node": i, "bytes": hex::encode(b), "number": n.to_string()}));
                            break;
                        }
                        let m = self.a.malachite_number(l.n);
                        if m.to_string() != exp.to_string() {
                            bad = Some(json!({"node": i, "bytes": hex::encode(b), "malachite_number": m.to_string()}));
                            break;
                        }
                    }
                }
                (MVal::Pair(x, y), SExp::Pair(nl, nr)) => {
                    if nl != self.live[*x].n || nr != self.live[*y].n {
                        bad = Some(json!({"node": i, "pair_children_changed": true}));
                        break;
                    }
                }
                _ => {
                    bad = Some(json!({"node": i, "kind_changed": true}));
                    break;
                }
            }
        }
        if let Some(b) = bad {
            let d = json!({"when": why, "what": b});
            self.fail("node-content-changed", d);
        }
        self.ctx.add("nodes_reread", self.live.len() as u64);
    }

    fn check_atom_eq(&mut self, r: &mut Rng) {
        let at = self.atoms_live();
        if at.len() < 2 {
            return;
        }
        for _ in 0..4 {
            let i = *r.pick(&at);
            let j = *r.pick(&at);
            let (MVal::Atom(x), MVal::Atom(y)) = (&self.live[i].v, &self.live[j].v) else {
                continue;
            };
            let exp = x == y;
            let got = self.a.atom_eq(self.live[i].n, self.live[j].n);
            let kinds = format!("{:?}/{:?}", self.live[i].n.object_type(), self.live[j].n.object_type());
            self.ctx.count(&format!("atom_eq_{kinds}"));
            if got != exp {
                let d = json!({"lhs": hex::encode(x), "rhs": hex::encode(y), "atom_eq": got, "representations": kinds});
                self.fail("atom_eq-disagrees-with-bytes", d);
            }
        }
    }

    /// predicted outcome of an allocating operation on the limited allocator,
    /// given the deltas measured on the unlimited shadow
    fn expect(&self, d_atoms: usize, d_pairs: usize, d_heap: usize) -> Vec<&'static str> {
        let c = counts(&self.a);
        let mut errs = Vec::new();
        if c.atoms + d_atoms > MAX_ATOMS {
            errs.push("TooManyAtoms");
        }
        if c.pairs + d_pairs > MAX_PAIRS {
            errs.push("TooManyPairs");
        }
        if c.heap + d_heap > self.heap_limit {
            errs.push("OutOfMemory");
        }
        errs
    }

    /// run one allocating op on both allocators and check the limit semantics
    fn alloc_op(
        &mut self,
        what: String,
        model_delta: (usize, usize, usize),
        known_sig: Option<&'static str>,
        f: &dyn Fn(&mut Allocator, bool) -> Result<NodePtr, EvalErr>,
    ) -> Option<(NodePtr, NodePtr)> {
        self.log.push(what.clone());
        self.ops_done += 1;
        let before = counts(&self.a);
        let mut shadow_node = NodePtr::NIL;
        let mut expected: Option<Vec<&'static str>> = None;
        if let Some(sh) = &mut self.shadow {
            let sb = counts(sh);
            match f(sh, true) {
                Ok(n) => {
                    shadow_node = n;
                    let sa = counts(sh);
                    expected = Some(self.expect(sa.atoms - sb.atoms, sa.pairs - sb.pairs, sa.heap - sb.heap));
                }
                Err(_) => {
                    // argument error (independent of limits): must fail on the limited one too
                    let r = f(&mut self.a, false);
                    if r.is_ok() {
                        self.fail("fails-unlimited-succeeds-limited", json!({"op": what}));
                    }
                    if counts(&self.a) != before {
                        self.fail("failed-op-changed-counts", json!({"op": what}));
                    }
                    return None;
                }
            }
        }
        let r = f(&mut self.a, false);
        match (&r, &expected) {
            (Ok(_), Some(e)) if !e.is_empty() => {
                let d = json!({"op": what, "expected_error": e, "counts_before": before.to_json(), "heap_limit": self.heap_limit});
                self.fail("succeeds-beyond-cap", d);
            }
            (Err(err), Some(e)) => {
                let v = crate::outcome::variant_name(err);
                if e.is_empty() {
                    let d = json!({"op": what, "error": v, "counts_before": before.to_json(), "heap_limit": self.heap_limit});
                    self.fail("limit-error-although-it-fits", d);
                } else if !e.contains(&v) {
                    let d = json!({"op": what, "error": v, "expected_one_of": e});
                    self.fail("wrong-limit-error", d);
                }
            }
            _ => {}
        }
        match r {
            Ok(n) => {
                self.model.atoms += model_delta.0;
                self.model.pairs += model_delta.1;
                self.model.heap += model_delta.2;
                self.check_counts(&what, known_sig);
                if expected.is_some() {
                    let c = counts(&self.a);
                    if MAX_ATOMS - c.atoms < 3 || MAX_PAIRS - c.pairs < 3 || self.heap_limit - c.heap < 8 {
                        self.saw_success_near_cap = true;
                    }
                }
                Some((n, shadow_node))
            }
            Err(e) => {
                if counts(&self.a) != before {
                    let d = json!({"op": what, "error": e.to_string(), "before": before.to_json(), "after": counts(&self.a).to_json()});
                    self.fail("failed-op-changed-counts", d);
                }
                self.saw_fail = true;
                self.ctx.count(&format!("alloc_failed_{}", crate::outcome::variant_name(&e)));
                if self.shadow.is_some() {
                    // contents must be untouched by the failed allocation
                    self.check_contents("after failed allocation");
                }
                None
            }
        }
    }

    fn push_atom(&mut self, n: (NodePtr, NodePtr), b: Vec<u8>) {
        self.live.push(Live { n: n.0, shadow: n.1, v: MVal::Atom(b) });
    }

    fn step(&mut self, r: &mut Rng) {
        let lockstep = self.shadow.is_some();
        let choice = r.below(if lockstep { 17 } else { 22 });
        match choice {
            0..=2 => {
                let maxl = if r.chance(1, 10) { 1500 } else { 60 };
                let b = gen_atom(r, maxl);
                let bb = b.clone();
                if let Some(n) = self.alloc_op(format!("new_atom({})", hex::encode(&b)), (1, 0, b.len()), None, &move |a, _| a.new_atom(&bb)) {
                    self.push_atom(n, b);
                }
            }
            3 => {
                let v = match r.below(4) {
                    0 => r.below(300) as u32,
                    1 => (1 << 26) - 1 - r.below(3) as u32,
                    _ => r.below(1 << 26) as u32,
                };
                let b = encode_int(v as i128);
                if let Some(n) = self.alloc_op(format!("new_small_number({v})"), (1, 0, b.len()), None, &move |a, _| a.new_small_number(v)) {
                    self.push_atom(n, b);
                }
            }
            4 => {
                // integer constructors
                let raw = gen_int_atom(r);
                let v = if raw.is_empty() { BigInt::from(0) } else { BigInt::from_signed_bytes_be(&raw) };
                let b = minimal_int_bytes(&v);
                let which = r.below(4);
                let vv = v.clone();
                use num_traits::ToPrimitive;
                let (name, ok): (&str, bool) = match which {
                    0 => ("new_number", true),
                    1 => ("new_malachite_number", true),
                    2 => ("new_u64", v.to_u64().is_some()),
                    _ => ("new_i64", v.to_i64().is_some()),
                };
                if !ok {
                    return;
                }
                let f = move |a: &mut Allocator, _: bool| match which {
                    0 => a.new_number(vv.clone()),
                    1 => a.new_malachite_number(vv.to_string().parse::<malachite_bigint::BigInt>().unwrap()),
                    2 => a.new_u64(vv.to_u64().unwrap()),
                    _ => a.new_i64(vv.to_i64().unwrap()),
                };
                if let Some(n) = self.alloc_op(format!("{name}({v})"), (1, 0, b.len()), None, &f) {
                    // canonical encoding check (C14)
                    let got = self.a.atom(n.0).as_ref().to_vec();
                    if got != b {
                        let d = json!({"constructor": name, "value": v.to_string(), "bytes": hex::encode(&got), "expected": hex::encode(&b)});
                        self.fail("integer-not-canonical", d);
                    }
                    self.ctx.count(&format!("int_ctor_{name}"));
                    self.push_atom(n, b);
                }
            }
            5..=7 => {
                if self.live.is_empty() {
                    return;
                }
                let i = r.usize(self.live.len());
                let j = r.usize(self.live.len());
                let (ni, nj) = (self.live[i].n, self.live[j].n);
                let (si, sj) = (self.live[i].shadow, self.live[j].shadow);
                if let Some(n) = self.alloc_op(format!("new_pair(#{i},#{j})"), (0, 1, 0), None, &move |a, sh| if sh { a.new_pair(si, sj) } else { a.new_pair(ni, nj) }) {
                    self.live.push(Live { n: n.0, shadow: n.1, v: MVal::Pair(i, j) });
                }
            }
            8..=11 => {
                // substring
                let at = self.atoms_live();
                if at.is_empty() {
                    return;
                }
                let i = *r.pick(&at);
                let MVal::Atom(b) = self.live[i].v.clone() else { return };
                let len = b.len() as u32;
                let (s, e) = match r.below(10) {
                    0 => (0, len),
                    1 => (len, len),
                    2 => (r.below(len as u64 + 2) as u32, len + 1), // out of bounds
                    3 => (len.min(2), len.min(1)),                  // end < start (when len >= 2)
                    _ => {
                        let s = r.below(len as u64 + 1) as u32;
                        let e = s + r.below((len - s) as u64 + 1) as u32;
                        (s, e)
                    }
                };
                let valid = s <= len && e <= len && s <= e;
                let (ni, si) = (self.live[i].n, self.live[i].shadow);
                let parent_inline = ni.object_type() == ObjectType::SmallAtom;
                let res: Vec<u8> = if valid { b[s as usize..e as usize].to_vec() } else { vec![] };
                let known = if parent_inline && valid && model_small(&res).is_none() {
                    Some("new_substr/inline-parent/non-canonical-result/heap-overcount")
                } else {
                    None
                };
                self.saw_view = true;
                self.ctx.count(if parent_inline { "substr_of_inline_atom" } else { "substr_of_heap_atom" });
                let r2 = self.alloc_op(format!("new_substr(#{i}={},{s},{e})", hex::encode(&b[..b.len().min(12)])), (1, 0, 0), known, &move |a, sh| a.new_substr(if sh { si } else { ni }, s, e));
                match (r2, valid) {
                    (Some(n), true) => self.push_atom(n, res),
                    (Some(_), false) => self.fail("substr-accepts-bad-bounds", json!({"len": len, "start": s, "end": e})),
                    _ => {}
                }
            }
            12..=14 => {
                // concat
                let at = self.atoms_live();
                let k = r.below(5) as usize;
                if at.is_empty() && k > 0 {
                    return;
                }
                let idx: Vec<usize> = (0..k).map(|_| *r.pick(&at)).collect();
                let mut total = Vec::new();
                for i in &idx {
                    if let MVal::Atom(b) = &self.live[*i].v {
                        total.extend_from_slice(b);
                    }
                }
                if total.len() > 200_000 {
                    return;
                }
                let nodes: Vec<NodePtr> = idx.iter().map(|i| self.live[*i].n).collect();
                let snodes: Vec<NodePtr> = idx.iter().map(|i| self.live[*i].shadow).collect();
                let size = total.len();
                if k >= 1 && r.chance(1, 6) {
                    // inconsistent size argument (too small, cut inside any term, or too large): must be refused and,
                    // like every failed allocation, leave counts and contents unchanged
                    let last = match &self.live[*idx.last().unwrap()].v {
                        MVal::Atom(b) => b.len(),
                        _ => 0,
                    };
                    let wrong = match r.below(4) {
                        0 => size.saturating_sub(1),
                        1 => size + 1 + r.usize(3),
                        2 => size.saturating_sub(last.max(1)),
                        _ => r.usize(size + 1),
                    };
                    if wrong != size {
                        self.ctx.count("concat_wrong_size_calls");
                        let (n2, s2) = (nodes.clone(), snodes.clone());
                        if self.alloc_op(format!("new_concat(wrong size {wrong} instead of {size}, {idx:?})"), (1, 0, wrong), None, &move |a, sh| a.new_concat(wrong, if sh { &s2 } else { &n2 })).is_some() {
                            self.fail("concat-accepts-wrong-size", json!({"size": size, "passed": wrong}));
                        }
                        return;
                    }
                }
                self.ctx.count(&format!("concat_{}_terms", k.min(3)));
                if let Some(n) = self.alloc_op(format!("new_concat({size}, {idx:?})"), (1, 0, size), None, &move |a, sh| a.new_concat(size, if sh { &snodes } else { &nodes })) {
                    let got = self.a.atom(n.0).as_ref().to_vec();
                    if got != total {
                        self.fail("concat-wrong-bytes", json!({"expected": hex::encode(&total), "got": hex::encode(&got)}));
                    }
                    self.push_atom(n, total);
                }
            }
            15 => {
                // full checkpoint
                let c = self.a.checkpoint();
                let sc = self.shadow.as_ref().map(|s| s.checkpoint());
                self.cps.push(Cp::Full(c, sc, self.model.clone(), self.live.len()));
                self.log.push("checkpoint".into());
            }
            16 => {
                // restore to a checkpoint (top, or a deeper one which drops the later ones)
                if self.cps.is_empty() {
                    return;
                }
                let k = if r.chance(3, 4) { self.cps.len() - 1 } else { r.usize(self.cps.len()) };
                self.cps.truncate(k + 1);
                let keep = r.chance(1, 3);
                match self.cps.last().unwrap() {
                    Cp::Full(c, sc, m, n) => {
                        self.a.restore_checkpoint(c);
                        if let (Some(sh), Some(sc)) = (&mut self.shadow, sc) {
                            sh.restore_checkpoint(sc);
                        }
                        self.model = m.clone();
                        self.live.truncate(*n);
                        self.log.push(format!("restore_checkpoint(depth {k})"));
                    }
                    Cp::Transparent(c, sc, n) => {
                        self.a.restore_transparent_checkpoint(c);
                        if let (Some(sh), Some(sc)) = (&mut self.shadow, sc) {
                            sh.restore_transparent_checkpoint(sc);
                        }
                        self.live.truncate(*n);
                        self.log.push(format!("restore_transparent_checkpoint(depth {k})"));
                    }
                }
                if !keep {
                    self.cps.pop();
                }
                self.saw_restore = true;
                self.ctx.count("restores");
                self.check_counts("restore", None);
                self.check_contents("after restore");
            }
            17 => {
                let c = self.a.transparent_checkpoint();
                self.cps.push(Cp::Transparent(c, None, self.live.len()));
                self.log.push("transparent_checkpoint".into());
            }
            18 | 19 => {
                // value preserving restore (only against the newest transparent checkpoint)
                let Some(Cp::Transparent(_, _, nlive)) = self.cps.last() else { return };
                let nlive = *nlive;
                if self.live.is_empty() {
                    return;
                }
                // prefer a node created after the checkpoint
                let i = if self.live.len() > nlive && r.chance(3, 4) { nlive + r.usize(self.live.len() - nlive) } else { r.usize(self.live.len()) };
                let Some(Cp::Transparent(c, _, _)) = self.cps.last() else { return };
                let node = self.live[i].n;
                let val = self.live[i].v.clone();
                let before = counts(&self.a);
                let res = self.a.maybe_restore_with_node(c, node);
                self.log.push(format!("maybe_restore_with_node(#{i}) -> {res:?}"));
                match res {
                    Ok(MaybeRestore::Aborted) => {
                        self.ctx.count("maybe_restore_aborted");
                    }
                    Ok(MaybeRestore::NoReplace) => {
                        self.ctx.count("maybe_restore_noreplace");
                        // NoReplace promises that the value is still valid: the handle may be an
                        // inline atom or alias an older node (single-term concat, empty concat)
                        self.live.truncate(nlive);
                        if i >= nlive {
                            self.live.push(Live { n: node, shadow: NodePtr::NIL, v: val.clone() });
                        }
                        self.cps.pop();
                        self.saw_restore = true;
                    }
                    Ok(MaybeRestore::Replace(nn)) => {
                        self.ctx.count("maybe_restore_replace");
                        self.live.truncate(nlive);
                        self.cps.pop();
                        self.saw_restore = true;
                        match val {
                            MVal::Atom(b) => {
                                if self.a.sexp(nn) != SExp::Atom || self.a.atom(nn).as_ref() != b.as_slice() {
                                    self.fail("replace-node-has-different-value", json!({"expected": hex::encode(&b)}));
                                }
                                self.live.push(Live { n: nn, shadow: NodePtr::NIL, v: MVal::Atom(b) });
                            }
                            MVal::Pair(_, _) => self.fail("replace-for-pair", json!({})),
                        }
                    }
                    Err(e) => {
                        self.fail("maybe_restore-error", json!({"error": e.to_string()}));
                    }
                }
                if counts(&self.a) != before {
                    let d = json!({"before": before.to_json(), "after": counts(&self.a).to_json()});
                    if self.prop == "C12" {
                        self.fail("value-preserving-restore-changed-counts", d);
                    }
                    self.model = counts(&self.a);
                }
                self.check_contents("after maybe_restore_with_node");
            }
            20 => {
                // ghost counters
                let n = r.range(1, 5) as usize;
                if r.chance(1, 2) {
                    if self.a.add_ghost_atom(n).is_ok() {
                        self.model.atoms += n;
                    }
                    self.log.push(format!("add_ghost_atom({n})"));
                } else {
                    if self.a.add_ghost_pair(n).is_ok() {
                        self.model.pairs += n;
                    }
                    self.log.push(format!("add_ghost_pair({n})"));
                }
                self.check_counts("ghost", None);
            }
            _ => {
                // curve points (blst is FFI: not under Miri)
                if self.ctx.miri {
                    return;
                }
                let p = crate::util::points();
                if r.chance(1, 2) {
                    let b = r.pick(&p.g1).clone();
                    let arr: [u8; 48] = b.clone().try_into().unwrap();
                    let Ok(g) = chia_bls::G1Element::from_bytes(&arr) else { return };
                    if let Some(n) = self.alloc_op("new_g1".into(), (1, 0, 48), None, &move |a, _| a.new_g1(g.clone())) {
                        self.push_atom(n, b);
                    }
                } else {
                    let b = r.pick(&p.g2).clone();
                    let arr: [u8; 96] = b.clone().try_into().unwrap();
                    let Ok(g) = chia_bls::G2Element::from_bytes(&arr) else { return };
                    if let Some(n) = self.alloc_op("new_g2".into(), (1, 0, 96), None, &move |a, _| a.new_g2(g.clone())) {
                        self.push_atom(n, b);
                    }
                }
            }
        }
    }
}

fn history(ctx: &mut Ctx, r: &mut Rng, prop: &'static str, lockstep: bool) {
    let miri = ctx.miri;
    let heap_limit;
    let mut a;
    let mut shadow = None;
    let mut model = Counts { atoms: 2, pairs: 0, heap: 1 };
    if lockstep {
        // small heap limit, counters pre-loaded to a small distance from the caps
        heap_limit = 1 + r.range(0, 600) as usize;
        a = Allocator::new_limited(heap_limit);
        let room_a = r.range(0, 40) as usize;
        let room_p = r.range(0, 40) as usize;
        a.add_ghost_atom(MAX_ATOMS - 2 - room_a).unwrap();
        a.add_ghost_pair(MAX_PAIRS - room_p).unwrap();
        model.atoms = MAX_ATOMS - room_a;
        model.pairs = MAX_PAIRS - room_p;
        shadow = Some(Allocator::new());
    } else {
        heap_limit = u32::MAX as usize;
        a = Allocator::new();
    }
    let nil = (a.nil(), NodePtr::NIL);
    let one = (a.one(), shadow.as_ref().map(|s: &Allocator| s.one()).unwrap_or(NodePtr::NIL));
    let mut h = Hist {
        ctx,
        a,
        shadow,
        heap_limit,
        live: vec![
            Live { n: nil.0, shadow: nil.1, v: MVal::Atom(vec![]) },
            Live { n: one.0, shadow: one.1, v: MVal::Atom(vec![1]) },
        ],
        cps: Vec::new(),
        model,
        log: Vec::new(),
        resynced: false,
        ops_done: 0,
        saw_restore: false,
        saw_view: false,
        saw_fail: false,
        saw_success_near_cap: false,
        prop,
    };
    h.check_counts("initial", None);
    let len = if miri { r.range(10, 60) } else if r.chance(1, 10) { r.range(200, 2000) } else { r.range(10, 200) };
    for k in 0..len {
        h.step(r);
        if k % 16 == 15 {
            if prop == "C14" || prop == "C12" {
                h.check_contents("periodic");
            }
            h.check_atom_eq(r);
        }
    }
    h.check_contents("end of history");
    h.check_atom_eq(r);
    let (ops, restore, view, fail, near) = (h.ops_done, h.saw_restore, h.saw_view, h.saw_fail, h.saw_success_near_cap);
    let key = r.u64();
    let sample_log: Vec<String> = h.log.iter().take(14).cloned().collect();
    let ctx = h.ctx;
    ctx.eval();
    ctx.add("allocator_operations", ops);
    let nontrivial = match prop {
        "C13" => fail && near,
        _ => restore && view,
    };
    if nontrivial {
        ctx.nontrivial(key);
        ctx.sample(|| json!({"history_prefix": sample_log, "operations": ops}));
    }
}

pub fn run_c12(ctx: &mut Ctx) {
    let n = ctx.n(150_000, 8_000_000);
    random_cases!(ctx, n, |r, _i| {
        history(ctx, &mut r, "C12", false);
    });
}

pub fn run_c14(ctx: &mut Ctx) {
    // exhaustive: all byte strings of length <= 2 (quick) / <= 3 (thorough)
    let maxlen = if ctx.thorough() && !ctx.miri { 3 } else { 2 };
    let mut id = 0u64;
    for len in 0..=maxlen {
        let total: u64 = 1 << (8 * len);
        let chunks = 16.min(total);
        for c in 0..chunks {
            let cid = DIRECTED | id;
            id += 1;
            if !ctx.want(cid) {
                continue;
            }
            let mut a = Allocator::new();
            let (lo, hi) = (total * c / chunks, total * (c + 1) / chunks);
            for v in lo..hi {
                if ctx.miri && len == 2 && v % 61 != 0 {
                    continue; // the interpreter layer samples the two-byte strings
                }
                let bytes: Vec<u8> = (0..len).map(|k| (v >> (8 * (len - 1 - k))) as u8).collect();
                exhaustive_bytes(ctx, &mut a, &bytes);
                if a.atom_count() > 30_000_000 {
                    a = Allocator::new();
                }
            }
            if !(ctx.miri && len == 2) {
                ctx.add("exhaustive_byte_strings", hi - lo);
            }
        }
    }
    // all integers in [-70000, 70000] through the four constructors
    for c in 0..16i64 {
        let cid = DIRECTED | id;
        id += 1;
        if !ctx.want(cid) {
            continue;
        }
        let mut a = Allocator::new();
        let span = 140_001i64;
        let step = if ctx.miri { 997 } else { 1 };
        let mut v = -70_000 + span * c / 16;
        let hi = -70_000 + span * (c + 1) / 16;
        while v < hi {
            check_int(ctx, &mut a, BigInt::from(v));
            v += step;
        }
    }
    // powers of two +-1 up to 2^512 and random big values
    {
        let cid = DIRECTED | id;
        if ctx.want(cid) {
            let mut a = Allocator::new();
            for k in 0..=512u32 {
                if ctx.miri && k % 37 != 0 {
                    continue;
                }
                for d in [-1i32, 0, 1] {
                    let v = (BigInt::from(1) << k) + d;
                    check_int(ctx, &mut a, v.clone());
                    check_int(ctx, &mut a, -v);
                }
            }
        }
    }
    let n = ctx.n(100_000, 6_000_000);
    random_cases!(ctx, n, |r, _i| {
        if r.chance(1, 4) {
            let mut a = Allocator::new();
            for _ in 0..20 {
                // (decimal round trips of kilobyte integers are quadratic: far too slow for the interpreter layer)
                let nbytes = if ctx.miri { *r.pick(&[1usize, 3, 4, 5, 8, 9, 16, 33]) } else { *r.pick(&[1usize, 3, 4, 5, 8, 9, 16, 33, 100, 1000, 4096]) };
                let b = r.bytes(nbytes);
                check_int(ctx, &mut a, BigInt::from_signed_bytes_be(&b));
            }
            ctx.eval();
        } else {
            history(ctx, &mut r, "C14", false);
        }
    });
}

fn exhaustive_bytes(ctx: &mut Ctx, a: &mut Allocator, bytes: &[u8]) {
    let exp = model_small(bytes);
    if fits_in_small_atom(bytes) != exp {
        ctx.violation("fits_in_small_atom-wrong", json!({"bytes": hex::encode(bytes)}));
    }
    let n = a.new_atom(bytes).unwrap();
    let heapn = crate::model::make_atom(a, bytes, crate::model::Repr::Heap).unwrap();
    for (node, what) in [(n, "auto"), (heapn, "heap")] {
        if a.atom(node).as_ref() != bytes || a.atom_len(node) != bytes.len() {
            ctx.violation("atom-readback", json!({"bytes": hex::encode(bytes), "repr": what}));
        }
        if a.small_number(node) != exp {
            ctx.violation("small_number-wrong", json!({"bytes": hex::encode(bytes), "repr": what, "got": format!("{:?}", a.small_number(node))}));
        }
        let num = a.number(node);
        let expn = if bytes.is_empty() { BigInt::from(0) } else { BigInt::from_signed_bytes_be(bytes) };
        if num != expn {
            ctx.violation("number-wrong", json!({"bytes": hex::encode(bytes), "repr": what}));
        }
    }
    if !a.atom_eq(n, heapn) {
        ctx.violation("atom_eq-disagrees-with-bytes", json!({"bytes": hex::encode(bytes), "representations": "auto/heap"}));
    }
    if (n.object_type() == ObjectType::SmallAtom) != exp.is_some() {
        ctx.violation("inline-iff-small", json!({"bytes": hex::encode(bytes)}));
    }
    ctx.eval();
    if !bytes.is_empty() && (bytes[0] & 0x80 != 0 || exp.is_none()) {
        ctx.nontrivial_bytes(&[bytes]);
    }
}

fn check_int(ctx: &mut Ctx, a: &mut Allocator, v: BigInt) {
    use num_traits::ToPrimitive;
    if a.atom_count() > 30_000_000 {
        *a = Allocator::new();
    }
    let exp = minimal_int_bytes(&v);
    let mut nodes = vec![("new_number", a.new_number(v.clone()).unwrap())];
    nodes.push(("new_malachite_number", a.new_malachite_number(v.to_string().parse().unwrap()).unwrap()));
    if let Some(u) = v.to_u64() {
        nodes.push(("new_u64", a.new_u64(u).unwrap()));
    }
    if let Some(i) = v.to_i64() {
        nodes.push(("new_i64", a.new_i64(i).unwrap()));
    }
    for (name, n) in nodes {
        let got = a.atom(n).as_ref().to_vec();
        if got != exp {
            ctx.violation("integer-not-canonical", json!({"constructor": name, "value": v.to_string(), "bytes": hex::encode(&got), "expected": hex::encode(&exp)}));
        }
        if a.number(n) != v || a.malachite_number(n).to_string() != v.to_string() {
            ctx.violation("integer-readback", json!({"constructor": name, "value": v.to_string()}));
        }
        if a.small_number(n) != model_small(&exp) {
            ctx.violation("small_number-wrong", json!({"value": v.to_string()}));
        }
        ctx.count(&format!("int_ctor_{name}"));
    }
    ctx.eval();
    if v.bits() > 26 || v < BigInt::from(0) {
        ctx.nontrivial_bytes(&[&exp]);
    }
}

// ---------------------------------------------------------------- C13

pub fn run_c13(ctx: &mut Ctx) {
    let n = ctx.n(60_000, 8_000_000);
    random_cases!(ctx, n, |r, _i| {
        history(ctx, &mut r, "C13", true);
    });
    // headroom sweeps for the programs that force every outcome of a reclaiming restore
    {
        let mut f = Forest::new();
        let d = super::c04::directed(&mut f);
        let bases = [ClvmFlags::ENABLE_GC, ClvmFlags::ENABLE_GC | ClvmFlags::NEW_COST_MODEL, clvmr::chia_dialect::MEMPOOL_MODE | ClvmFlags::ENABLE_GC];
        let mut id = 0;
        for (p, e) in &d {
            for b in &bases {
                let cid = DIRECTED | id;
                id += 1;
                if !ctx.want(cid) || (ctx.miri && id % 7 != 0) {
                    continue;
                }
                let mut r = ctx.rng(cid);
                sweep_program(ctx, &mut r, &f, *p, *e, *b & !ClvmFlags::LIMIT_HEAP, if ctx.light { 600 } else { 8000 }, 0);
            }
        }
    }
    // headroom sweeps for whole programs
    let n2 = ctx.n(12_000, 1_500_000);
    random_cases!(ctx, n2, |r, _i| {
        program_sweep(ctx, &mut r);
    });
    // decoders near the pair cap
    let n3 = ctx.n(6_000, 600_000);
    random_cases!(ctx, n3, |r, _i| {
        decoder_sweep(ctx, &mut r);
    });
}

fn prepared(f: &Forest, prog: u32, env: u32, plan: (u64, u64), heap_room: Option<usize>, atom_room: Option<usize>, pair_room: Option<usize>)
    -> Option<(Allocator, NodePtr, NodePtr, usize)> {
    // first build unlimited to learn the footprint of the inputs
    let mut probe = Allocator::new();
    crate::util::materialize2(f, &mut probe, prog, env, plan.0, plan.1)?;
    let base = counts(&probe);
    drop(probe);
    let limit = match heap_room {
        Some(room) => base.heap + room,
        None => u32::MAX as usize,
    };
    let mut a = Allocator::new_limited(limit);
    let (p, e) = crate::util::materialize2(f, &mut a, prog, env, plan.0, plan.1)?;
    if let Some(room) = atom_room {
        a.add_ghost_atom(MAX_ATOMS - a.atom_count() - room).ok()?;
    }
    if let Some(room) = pair_room {
        a.add_ghost_pair(MAX_PAIRS - a.pair_count() - room).ok()?;
    }
    Some((a, p, e, limit))
}

fn program_sweep(ctx: &mut Ctx, r: &mut Rng) {
    let flags = gen_flags(r, ClvmFlags::all() & !ClvmFlags::LIMIT_HEAP);
    let mut cfg = ProgCfg::full(flags);
    cfg.bls = r.chance(1, 12);
    cfg.secp = false;
    cfg.mutate_16 = 1;
    cfg.max_depth = 4;
    cfg.big_atoms = r.chance(1, 3);
    let mut f = Forest::new();
    let p = crate::util::gen_program(&mut f, r, cfg);
    sweep_program(ctx, r, &f, p.prog, p.env, flags, 3000, 4);
}

/// unlimited run with event recording: outcome, counts before, bytes copied by inline substrings
fn run_recorded(f: &Forest, prog: u32, env: u32, plan: (u64, u64), flags: ClvmFlags) -> Option<(crate::outcome::Outcome, crate::outcome::Counts, usize)> {
    let (mut a0, p0, e0, _) = prepared(f, prog, env, plan, None, None, None)?;
    let before = counts(&a0);
    let (o, ev) = crate::util::with_events(|| crate::outcome::run_chia(&mut a0, flags, p0, e0, 0));
    let copies = ev.iter().filter(|e| matches!(e, clvmr::verif_hooks::Event::InlineSubstrCopy { .. })).count();
    Some((o, before, copies))
}

/// runs the program; in the diagnostics build the allocator counts are sampled at every evaluation step
/// (pre- and post-eval callbacks, observe only) and the component-wise peak is returned, otherwise the final counts
fn run_sampled(a: &mut Allocator, flags: ClvmFlags, p: NodePtr, e: NodePtr) -> (crate::outcome::Outcome, crate::outcome::Counts, u64) {
    #[cfg(feature = "diag")]
    {
        use std::cell::Cell;
        use std::rc::Rc;
        let peak = Rc::new(Cell::new((0usize, 0usize, 0usize, 0u64)));
        let sample = |pk: &Rc<Cell<(usize, usize, usize, u64)>>, a: &Allocator| {
            let (x, y, z, n) = pk.get();
            pk.set((x.max(a.atom_count()), y.max(a.pair_count()), z.max(a.heap_size()), n + 1));
        };
        let pk2 = peak.clone();
        let cb: clvmr::run_program::PreEval = Box::new(move |a, _prog, _env| {
            sample(&pk2, a);
            let pk3 = pk2.clone();
            let f: Box<clvmr::run_program::PostEval> = Box::new(move |a, _n| {
                let (x, y, z, n) = pk3.get();
                pk3.set((x.max(a.atom_count()), y.max(a.pair_count()), z.max(a.heap_size()), n + 1));
            });
            Ok(Some(f))
        });
        let d = clvmr::chia_dialect::ChiaDialect::new(flags);
        let r = crate::outcome::guarded(|| clvmr::run_program::run_program_with_pre_eval(a, &d, p, e, 0, Some(cb)));
        let (res, node) = crate::outcome::res_of(a, r);
        let fin = counts(a);
        let (x, y, z, n) = peak.get();
        let pk = crate::outcome::Counts { atoms: x.max(fin.atoms), pairs: y.max(fin.pairs), heap: z.max(fin.heap) };
        (crate::outcome::Outcome { res, node, counts: fin, allocated: crate::outcome::allocated(a) }, pk, n)
    }
    #[cfg(not(feature = "diag"))]
    {
        let o = crate::outcome::run_chia(a, flags, p, e, 0);
        let c = counts(a);
        (o, c, 0)
    }
}

fn sweep_program(ctx: &mut Ctx, r: &mut Rng, f: &Forest, prog: u32, env: u32, flags: ClvmFlags, max_need: usize, vary: u64) {
    struct P {
        prog: u32,
        env: u32,
    }
    let p = P { prog, env };
    let f = f.clone();
    let plan = (r.u64(), vary);
    let Some((o, before, copies)) = run_recorded(&f, p.prog, p.env, plan, flags) else { return };
    if !o.res.is_ok() {
        return;
    }
    // The counts the limits are enforced on must be the real ones: reclaiming memory (ENABLE_GC) must not
    // make the allocator report less than the same run without reclamation. (Runs in which a substring of an
    // inline atom copied bytes are left out: that difference is the recorded C12/C04 finding.)
    if flags.contains(ClvmFlags::ENABLE_GC) {
        if let Some((o_plain, _, copies_plain)) = run_recorded(&f, p.prog, p.env, plan, flags & !ClvmFlags::ENABLE_GC) {
            if copies == 0 && copies_plain == 0 {
                ctx.count("gc_runs_compared_with_plain_runs");
                if o_plain.res.is_ok() && o_plain.counts != o.counts {
                    let mut j = crate::util::prog_json(&f, p.prog, p.env);
                    j["flags"] = crate::outcome::flags_json(flags);
                    j["counts_with_reclamation"] = o.counts.to_json();
                    j["counts_without_reclamation"] = o_plain.counts.to_json();
                    ctx.violation("reported-counts-under-reclamation-differ-from-real-usage", j);
                    return;
                }
            } else {
                ctx.count("gc_comparison_skipped_inline_substr_copy");
            }
        }
    }
    let base = o.res.clone();
    let has_guard = crate::util::contains_atom(&f, p.prog, &[&[36]]) || crate::util::contains_atom(&f, p.env, &[&[36]]);
    let which = r.below(3);
    let final_need = match which {
        0 => o.counts.heap - before.heap,
        1 => o.counts.atoms - before.atoms,
        _ => o.counts.pairs - before.pairs,
    };
    if final_need > max_need {
        return;
    }
    let (expected_err, name) = match which {
        0 => ("OutOfMemory", "heap"),
        1 => ("TooManyAtoms", "atoms"),
        _ => ("TooManyPairs", "pairs"),
    };
    ctx.eval();
    let mut min_ok: Option<usize> = None;
    let mut saw_fail = false;
    let top = final_need + 2 + if has_guard { 400 } else { 0 };
    for d in 0..=top {
        let (hr, ar, pr) = match which {
            0 => (Some(d), None, None),
            1 => (None, Some(d), None),
            _ => (None, None, Some(d)),
        };
        let Some((mut a, pp, ee, limit)) = prepared(&f, p.prog, p.env, plan, hr, ar, pr) else { return };
        let (o2, peak, samples) = run_sampled(&mut a, flags, pp, ee);
        ctx.add("per_step_count_samples", samples);
        let c = peak;
        if c.atoms > MAX_ATOMS || c.pairs > MAX_PAIRS || c.heap > limit {
            let mut j = crate::util::prog_json(&f, p.prog, p.env);
            j["resource"] = json!(name);
            j["room"] = json!(d);
            j["counts"] = c.to_json();
            j["heap_limit"] = json!(limit);
            ctx.violation("cap-exceeded-by-program", j);
            return;
        }
        match &o2.res {
            r2 if r2.is_ok() => {
                if *r2 != base {
                    let mut j = crate::util::prog_json(&f, p.prog, p.env);
                    j["room"] = json!(d);
                    j["unlimited"] = base.to_json();
                    j["limited"] = r2.to_json();
                    ctx.violation("limit-changes-successful-result", j);
                    return;
                }
                if min_ok.is_none() {
                    min_ok = Some(d);
                }
            }
            r2 => {
                saw_fail = true;
                if let Some(m) = min_ok {
                    let mut j = crate::util::prog_json(&f, p.prog, p.env);
                    j["resource"] = json!(name);
                    j["succeeds_with_room"] = json!(m);
                    j["fails_with_room"] = json!(d);
                    j["error"] = r2.to_json();
                    ctx.violation("headroom-not-upward-closed", j);
                    return;
                }
                if r2.variant() != expected_err {
                    let mut j = crate::util::prog_json(&f, p.prog, p.env);
                    j["resource"] = json!(name);
                    j["room"] = json!(d);
                    j["error"] = r2.to_json();
                    j["flags"] = crate::outcome::flags_json(flags);
                    ctx.violation("wrong-error-under-limit", j);
                    return;
                }
            }
        }
    }
    match min_ok {
        None if has_guard => ctx.count("guard_program_peak_beyond_sweep"),
        None => {
            let mut j = crate::util::prog_json(&f, p.prog, p.env);
            j["resource"] = json!(name);
            j["final_need"] = json!(final_need);
            j["flags"] = crate::outcome::flags_json(flags);
            ctx.violation("limit-error-although-it-fits", j);
        }
        Some(m) => {
            // without guards the counters only grow: the need is exactly the final delta
            if (!has_guard && m != final_need) || m < final_need {
                let mut j = crate::util::prog_json(&f, p.prog, p.env);
                j["resource"] = json!(name);
                j["final_need"] = json!(final_need);
                j["minimal_room"] = json!(m);
                j["flags"] = crate::outcome::flags_json(flags);
                ctx.violation("need-not-exact", j);
            }
            if saw_fail {
                ctx.nontrivial(crate::util::case_key(&f, p.prog, p.env, &[which as u8]));
                ctx.count(&format!("program_sweeps_{name}"));
                ctx.sample(|| {
                    let mut j = crate::util::prog_json(&f, p.prog, p.env);
                    j["resource"] = json!(name);
                    j["exact_need"] = json!(m);
                    j
                });
            }
        }
    }
}

fn decoder_sweep(ctx: &mut Ctx, r: &mut Rng) {
    use clvmr::serde::{node_from_bytes, node_from_bytes_backrefs, node_from_bytes_backrefs_old, node_to_bytes_backrefs};
    let mut f = Forest::new();
    let sh = *r.pick(crate::genr::SHAPES);
    let sz = r.usize(40) + 2;
    let t = crate::genr::gen_tree(r, &mut f, sh, sz, 30);
    let (pairs, _, len) = f.expanded_stats(t);
    if len > 100_000 {
        return;
    }
    let mut a = Allocator::new();
    let Ok(n) = f.materialize_auto(&mut a, t) else { return };
    let Ok(blob) = node_to_bytes_backrefs(&a, n) else { return };
    let classic = f.classic_bytes(t);
    ctx.eval();
    type Dec = fn(&mut Allocator, &[u8]) -> clvmr::error::Result<NodePtr>;
    let need = |dec: Dec, b: &[u8]| -> Option<usize> {
        let mut a = Allocator::new();
        dec(&mut a, b).ok()?;
        Some(a.pair_count())
    };
    let n_new = need(node_from_bytes_backrefs, &blob);
    let n_old = need(node_from_bytes_backrefs_old, &blob);
    let n_cl = need(node_from_bytes, &classic);
    if n_new != n_old {
        ctx.violation("backref-decoders-pair-count-differs", json!({"blob": hex::encode(&blob), "new": n_new, "old": n_old}));
        return;
    }
    if n_cl != Some(pairs as usize) {
        ctx.violation("classic-decoder-pair-count", json!({"blob": hex::encode(&classic), "pairs": n_cl, "expected": pairs.to_string()}));
    }
    let Some(need_p) = n_new else { return };
    let mut both_seen = (false, false);
    for d in need_p.saturating_sub(3)..=need_p + 2 {
        let decs: [(&str, Dec); 2] = [("new", node_from_bytes_backrefs), ("old", node_from_bytes_backrefs_old)];
        for (name, dec) in decs {
            let mut a = Allocator::new();
            a.add_ghost_pair(MAX_PAIRS - d).unwrap();
            let r2 = dec(&mut a, &blob);
            let ok = r2.is_ok();
            if ok != (d >= need_p) {
                ctx.violation("decoder-pair-cap-not-exact", json!({"decoder": name, "blob": hex::encode(&blob), "room": d, "need": need_p, "ok": ok}));
                return;
            }
            if let Err(e) = &r2
                && crate::outcome::variant_name(e) != "TooManyPairs"
            {
                ctx.violation("wrong-error-under-limit", json!({"decoder": name, "error": e.to_string()}));
            }
            if a.pair_count() > MAX_PAIRS {
                ctx.violation("cap-exceeded", json!({"decoder": name, "pairs": a.pair_count()}));
            }
            if ok { both_seen.0 = true } else { both_seen.1 = true }
        }
    }
    if both_seen.0 && both_seen.1 {
        ctx.nontrivial_bytes(&[&blob]);
        ctx.count("decoder_sweeps");
    }
}
