//! C08 — soft-fork safety (extension-aware vs extension-hiding dialect)
//! C31 — softfork guards are isolated and always yield nil (hook event checker)

use crate::genr::{gen_flags, ProgCfg};
use crate::model::{Forest, Id};
use crate::outcome::{flags_json, run_dialect, Res};
use crate::random_cases;
use crate::report::{Ctx, DIRECTED};
use crate::rng::Rng;
use crate::sexp;
use crate::util::{case_key, gen_program, materialize2, prog_json, with_events};
use clvmr::allocator::{Allocator, NodePtr};
use clvmr::chia_dialect::{ChiaDialect, ClvmFlags};
use clvmr::cost::Cost;
use clvmr::dialect::{Dialect, OperatorSet};
use clvmr::error::EvalErr;
use clvmr::more_ops::op_unknown;
use clvmr::reduction::Response;
use clvmr::verif_hooks::Event;
use serde_json::json;

/// A dialect identical to ChiaDialect(flags) except that it does not know any
/// softfork extension nor the two 4-byte secp opcodes.
pub struct HidingDialect {
    inner: ChiaDialect,
    flags: ClvmFlags,
}

impl HidingDialect {
    pub fn new(flags: ClvmFlags) -> Self {
        HidingDialect { inner: ChiaDialect::new(flags), flags }
    }
}

impl Dialect for HidingDialect {
    fn quote_kw(&self) -> u32 {
        self.inner.quote_kw()
    }
    fn apply_kw(&self) -> u32 {
        self.inner.apply_kw()
    }
    fn softfork_kw(&self) -> u32 {
        self.inner.softfork_kw()
    }
    fn softfork_extension(&self, _ext: u32) -> OperatorSet {
        OperatorSet::Default
    }
    fn flags(&self) -> ClvmFlags {
        self.inner.flags()
    }
    fn gc_candidate(&self, a: &Allocator, op: NodePtr) -> bool {
        self.inner.gc_candidate(a, op)
    }
    fn op(&self, a: &mut Allocator, o: NodePtr, args: NodePtr, max_cost: Cost, ext: OperatorSet) -> Response {
        // a node that predates the secp softfork knows no multi-byte opcode at
        // all: every 4-byte operator is an unknown operator to it
        if a.atom_len(o) == 4 {
            return if self.flags.contains(ClvmFlags::NO_UNKNOWN_OPS) {
                Err(EvalErr::Unimplemented(o))
            } else {
                op_unknown(a, o, args, max_cost, self.inner.flags())
            };
        }
        self.inner.op(a, o, args, max_cost, ext)
    }
    fn allow_unknown_ops(&self) -> bool {
        self.inner.allow_unknown_ops()
    }
}

fn check08(ctx: &mut Ctx, r: &mut Rng, f: &Forest, prog: Id, env: Id, flags: ClvmFlags, budget: u64) {
    let flags = flags & !ClvmFlags::NEW_COST_MODEL & !ClvmFlags::NO_UNKNOWN_OPS;
    let plan = r.u64();
    let mut a1 = Allocator::new();
    let mut a2 = Allocator::new();
    let (Some((p1, e1)), Some((p2, e2))) = (
        materialize2(f, &mut a1, prog, env, plan, 0),
        materialize2(f, &mut a2, prog, env, plan, 0),
    ) else {
        return;
    };
    let aware = ChiaDialect::new(flags);
    let hiding = HidingDialect::new(flags);
    let (o1, ev) = with_events(|| run_dialect(&mut a1, &aware, p1, e1, budget));
    let o2 = run_dialect(&mut a2, &hiding, p2, e2, budget);
    ctx.eval();
    let entered = ev.iter().filter(|e| matches!(e, Event::GuardEnter { .. })).count();
    let secp4 = crate::util::contains_atom(f, prog, &[&[0x13, 0xd6, 0x1f, 0x00], &[0x1c, 0x3a, 0x8f, 0x00]]);
    ctx.count(&format!("aware_{}", o1.res.variant()));
    if matches!(o1.res, Res::Panic(_)) || matches!(o2.res, Res::Panic(_)) {
        let mut j = prog_json(f, prog, env);
        j["aware"] = o1.res.to_json();
        j["hiding"] = o2.res.to_json();
        ctx.violation("panic", j);
        return;
    }
    if o1.res.is_ok() {
        if entered > 0 || secp4 {
            ctx.nontrivial(case_key(f, prog, env, &[&flags.bits().to_le_bytes()[..], &budget.to_le_bytes()[..]].concat()));
            ctx.add("guards_entered_in_successful_aware_runs", entered as u64);
            if secp4 {
                ctx.count("successful_runs_with_4byte_secp_opcode");
            }
            ctx.sample(|| {
                let mut j = prog_json(f, prog, env);
                j["flags"] = flags_json(flags);
                j["aware"] = o1.res.to_json();
                j["guards_entered"] = json!(entered);
                j["counts_after"] = o1.counts.to_json();
                j
            });
        }
        if o1.res != o2.res || o1.counts != o2.counts {
            let mut j = prog_json(f, prog, env);
            j["flags"] = flags_json(flags);
            j["budget"] = json!(budget);
            j["aware"] = o1.res.to_json();
            j["hiding"] = o2.res.to_json();
            j["aware_counts"] = o1.counts.to_json();
            j["hiding_counts"] = o2.counts.to_json();
            ctx.violation(if o1.res != o2.res { "unaware-node-disagrees" } else { "unaware-node-counts-differ" }, j);
        }
    } else if o2.res.is_ok() {
        ctx.count("aware_fails_hiding_succeeds(allowed)");
    }
}

fn softfork_cfg(r: &mut Rng, flags: ClvmFlags) -> ProgCfg {
    let mut cfg = ProgCfg::full(flags);
    cfg.guards = true;
    cfg.bls = r.chance(1, 6);
    cfg.secp = r.chance(1, 3);
    cfg.mutate_16 = 1;
    cfg.big_atoms = r.chance(1, 4);
    cfg
}

/// `depth` nested guards with exact declared costs (built bottom-up)
pub fn nested_guards(f: &mut Forest, r: &mut Rng, depth: u32, flags: ClvmFlags, inner_text: &str) -> Id {
    let new_model = flags.contains(ClvmFlags::NEW_COST_MODEL);
    let gcost = if new_model { 500 } else { 140 };
    let mut inner = sexp::parse(f, inner_text, &[]);
    let nil = f.nil();
    for _ in 0..depth {
        let ext = if r.chance(1, 2) { 0 } else { 1 };
        let c = crate::util::measure_in_ext(f, inner, nil, flags, Some(ext as u32))
            .unwrap_or(1)
            + gcost;
        let cid = f.int(c as i128);
        let eid = f.int(ext);
        inner = sexp::parse(f, "(softfork (q . $c) (q . $e) (q . $p) (q . ()))", &[("c", cid), ("e", eid), ("p", inner)]);
    }
    inner
}

pub fn run_c08(ctx: &mut Ctx) {
    // directed
    let mut f = Forest::new();
    let env = f.nil();
    let mut dr = Rng::new(99);
    let mut directed: Vec<Id> = Vec::new();
    for t in [
        "(q . 1)",
        "(keccak256 (q . 1) (q . 2))",
        "(concat (q . 0x00112233445566778899aabbccddeeff00112233445566778899aabbccddeeff) (q . 0x00112233445566778899aabbccddeeff00112233445566778899aabbccddeeff))",
        "(c (c (q . 1) (q . 2)) (c (q . 0x80ffffffff) (q . 70000000)))",
        "(g1_negate (pubkey_for_exp (q . 3)))",
        "(substr (q . 0x0080) (q . 0) (q . 1))",
        "(substr (q . 0x008080) (q . 1) (q . 3))",
    ] {
        for depth in [1u32, 2, 5] {
            directed.push(nested_guards(&mut f, &mut dr, depth, ClvmFlags::empty(), t));
        }
    }
    // an extension-only operator evaluated AFTER a guard has completed, in the same run (operands are evaluated last
    // to first): the guard's operator set must not outlive the guard
    for t in [
        "(c (62 (q . \"foobar\")) (softfork (q . 160) (q . 1) (q . (q . 42)) (q . ())))",
        "(c (62 (q . \"foobar\")) (softfork (q . 160) (q . 0) (q . (q . 42)) (q . ())))",
        "(c (62 (q . 1) (q . 2)) (c (softfork (q . 160) (q . 1) (q . (q . 42)) (q . ())) (62 (q . 3))))",
        "(c (63 (q . (1 . 2))) (softfork (q . 160) (q . 1) (q . (q . 42)) (q . ())))",
        "(c (62 (q . \"foobar\")) (a (q . (softfork (q . 160) (q . 1) (q . (q . 42)) (q . ()))) ()))",
    ] {
        directed.push(sexp::parse(&mut f, t, &[]));
    }
    for inner in ["(q . 1)", "(keccak256 (q . 1) (q . 2))"] {
        for depth in [1u32, 2, 3] {
            let g = nested_guards(&mut f, &mut dr, depth, ClvmFlags::empty(), inner);
            let after = sexp::parse(&mut f, "(62 (q . 0x0102) (q . 0x03))", &[]);
            let c = f.atom(&[4]);
            let l = f.list(&[c, after, g]);
            directed.push(l);
        }
    }
    {
        // valid 4-byte secp calls
        let p = crate::util::points();
        // ... and the whole neighbourhood of the two assigned opcodes (other
        // cost-function bits, ignored bits, adjacent multipliers), which both
        // kinds of node must treat as plain unknown operators
        for (prefix, t) in [("13d61f", &p.k1[0]), ("1c3a8f", &p.r1[0]), ("13d61e", &p.k1[1]), ("1c3a90", &p.r1[1])] {
            for last in [0x00u8, 0x01, 0x3f, 0x40, 0x41, 0x80, 0xbf, 0xc0, 0xff] {
                let pk = f.atom(&t.0);
                let m = f.atom(&t.1);
                let s = f.atom(&t.2);
                let txt = format!("(0x{prefix}{last:02x} (q . $pk) (q . $m) (q . $s))");
                directed.push(sexp::parse(&mut f, &txt, &[("pk", pk), ("m", m), ("s", s)]));
            }
        }
    }
    let mut id = 0;
    for p in &directed {
        for fl in [ClvmFlags::empty(), ClvmFlags::ENABLE_GC, ClvmFlags::LIMIT_SOFTFORK | ClvmFlags::CANONICAL_INTS | ClvmFlags::LIMIT_HEAP,
                   ClvmFlags::ENABLE_KECCAK_OPS_OUTSIDE_GUARD | ClvmFlags::ENABLE_SECP_OPS | ClvmFlags::ENABLE_SHA256_TREE] {
            let cid = DIRECTED | id;
            id += 1;
            if !ctx.want(cid) {
                continue;
            }
            let mut r = ctx.rng(cid);
            check08(ctx, &mut r, &f, *p, env, fl, 0);
            check08(ctx, &mut r, &f, *p, env, fl, 11_000_000_000);
        }
    }
    let n = ctx.n(1_500_000, 100_000_000);
    random_cases!(ctx, n, |r, _i| {
        let flags = gen_flags(&mut r, ClvmFlags::all() & !ClvmFlags::NEW_COST_MODEL & !ClvmFlags::NO_UNKNOWN_OPS);
        let cfg = softfork_cfg(&mut r, flags);
        let mut f = Forest::new();
        let p = gen_program(&mut f, &mut r, cfg);
        if p.guards == 0 && !r.chance(1, 8) {
            continue;
        }
        let budget = if r.chance(5, 6) { 0 } else { r.range(1, 3_000_000) };
        check08(ctx, &mut r, &f, p.prog, p.env, flags, budget);
    });
}

// ---------------------------------------------------------------- C31

/// online checker over the hook event stream of one run
fn check_events(ctx: &mut Ctx, ev: &[Event], what: &serde_json::Value, flags: ClvmFlags) -> (u64, u64) {
    let mut stack: Vec<&Event> = Vec::new();
    let mut completed = 0;
    let mut maxdepth = 0;
    for e in ev {
        match e {
            Event::GuardEnter { depth, exempt, .. } => {
                // the interpreter's own notion of "cost-exempt" is not trusted: only the new cost model
                // grandfathers guards (extensions 0 and 1 that predate the hard fork)
                if *exempt && !flags.contains(ClvmFlags::NEW_COST_MODEL) {
                    ctx.violation("guard-cost-exempt-outside-new-cost-model", json!({"event": format!("{e:?}"), "case": what}));
                }
                if *depth != stack.len() + 1 {
                    ctx.violation("guard-depth-mismatch", json!({"event": format!("{e:?}"), "open": stack.len(), "case": what}));
                }
                stack.push(e);
                maxdepth = maxdepth.max(*depth as u64);
            }
            Event::GuardExit { depth, cost, atoms, pairs, heap, result_is_nil } => {
                let Some(Event::GuardEnter { depth: d0, exempt, declared, cost: c0, atoms: a0, pairs: p0, heap: h0, .. }) = stack.pop() else {
                    ctx.violation("guard-exit-without-enter", json!({"event": format!("{e:?}"), "case": what}));
                    continue;
                };
                completed += 1;
                ctx.count(if *exempt { "guards_completed_exempt" } else { "guards_completed_exact_cost" });
                if d0 != depth {
                    ctx.violation("guard-depth-mismatch", json!({"enter": d0, "exit": depth, "case": what}));
                }
                if (atoms, pairs, heap) != (a0, p0, h0) {
                    ctx.violation("guard-leaks-allocator-counts", json!({"enter": [a0, p0, h0], "exit": [atoms, pairs, heap], "depth": depth, "case": what}));
                }
                if !result_is_nil {
                    ctx.violation("guard-result-not-nil", json!({"depth": depth, "case": what}));
                }
                if !*exempt && cost.wrapping_sub(*c0) != *declared {
                    ctx.violation("guard-consumed-cost-not-declared", json!({"declared": declared, "consumed": cost.wrapping_sub(*c0), "depth": depth, "case": what}));
                }
            }
            _ => {}
        }
    }
    (completed, maxdepth)
}

fn check31(ctx: &mut Ctx, r: &mut Rng, f: &Forest, prog: Id, env: Id, flags: ClvmFlags, budget: u64, expect: Option<bool>) {
    let plan = r.u64();
    let mut a = crate::outcome::allocator_for(flags);
    let Some((p, e)) = materialize2(f, &mut a, prog, env, plan, if r.chance(1, 3) { 6 } else { 0 }) else {
        return;
    };
    let d = ChiaDialect::new(flags);
    let (o, ev) = with_events(|| run_dialect(&mut a, &d, p, e, budget));
    ctx.eval();
    let what = {
        let mut j = prog_json(f, prog, env);
        j["flags"] = flags_json(flags);
        j["budget"] = json!(budget);
        j["outcome"] = o.res.to_json();
        j
    };
    let (completed, maxdepth) = check_events(ctx, &ev, &what, flags);
    ctx.add("guards_completed", completed);
    ctx.max("max_guard_depth_seen", maxdepth);
    if completed > 0 {
        ctx.nontrivial(case_key(f, prog, env, &[&flags.bits().to_le_bytes()[..], &budget.to_le_bytes()[..]].concat()));
        ctx.sample(|| {
            let mut j = what.clone();
            j["guards_completed"] = json!(completed);
            j["events"] = json!(ev.iter().take(6).map(|e| format!("{e:?}")).collect::<Vec<_>>());
            j
        });
    }
    if let Some(exp) = expect {
        // nesting-depth cases: whole program is a tower of guards
        if o.res.is_ok() != exp {
            ctx.violation("softfork-depth-limit", json!({"expected_success": exp, "case": what}));
        }
        if exp {
            // whole program is a guard: result nil (counts at entry/exit are compared on the hook events;
            // the operator's own argument list is built before the guard is entered)
            if let Res::Ok { hash, .. } = &o.res
                && *hash != crate::model::atom_hash(&[])
            {
                ctx.violation("guard-result-not-nil", json!({"case": what}));
            }
        }
    }
}

pub fn run_c31(ctx: &mut Ctx) {
    // nesting towers around the LIMIT_SOFTFORK boundary, both cost models
    let mut id = 0;
    let inner_texts = ["(q . 1)", "(concat (q . \"abc\") (q . \"defg\"))", "(c (q . 1) (c (q . 0x80ffff) (q . ())))", "(keccak256 (q . 1))",
                       "(substr (q . 0x008080) (q . 1) (q . 3))"];
    for depth in 1..=25u32 {
        for (ti, t) in inner_texts.iter().enumerate() {
            for (fi, base) in [ClvmFlags::empty(), ClvmFlags::NEW_COST_MODEL, ClvmFlags::ENABLE_GC].iter().enumerate() {
                for limit in [false, true] {
                    let cid = DIRECTED | id;
                    id += 1;
                    let _ = (ti, fi);
                    if !ctx.want(cid) {
                        continue;
                    }
                    let mut r = ctx.rng(cid);
                    let mut f = Forest::new();
                    let mut flags = *base;
                    if limit {
                        flags |= ClvmFlags::LIMIT_SOFTFORK;
                    }
                    if r.chance(1, 3) {
                        flags |= ClvmFlags::ENABLE_GC;
                    }
                    let p = nested_guards(&mut f, &mut r, depth, flags, t);
                    let env = f.nil();
                    let expect = !(limit && depth > 20);
                    if depth >= 19 && depth <= 22 {
                        ctx.count("depth_boundary_cases");
                    }
                    check31(ctx, &mut r, &f, p, env, flags, 0, Some(expect));
                }
            }
        }
    }
    let n = ctx.n(3_000_000, 60_000_000);
    random_cases!(ctx, n, |r, _i| {
        let flags = gen_flags(&mut r, ClvmFlags::all());
        let cfg = softfork_cfg(&mut r, flags);
        let mut f = Forest::new();
        let p = gen_program(&mut f, &mut r, cfg);
        if p.guards == 0 {
            continue;
        }
        let budget = if r.chance(5, 6) { 0 } else { r.range(1, 3_000_000) };
        check31(ctx, &mut r, &f, p.prog, p.env, flags, budget, None);
    });
}
