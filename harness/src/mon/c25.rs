//! C25 — the interpreter and every operator are total: no panic, abort,
//! stack overflow or InternalError. The same monitor runs in the rel, dbg,
//! asan and (small) miri builds; a dying process is detected by the driver.

use crate::genr::{gen_flags, gen_tree, gen_wild_program, mutate, ProgCfg, SHAPES};
use crate::model::Forest;
use crate::mon::ops::{all_ops, call, call_record, gen_args, SizeMode};
use crate::outcome::{flags_json, Res};
use crate::random_cases;
use crate::report::Ctx;
use crate::util::{case_key, gen_program, prog_json, run_case};
use clvmr::chia_dialect::ClvmFlags;
use serde_json::json;

fn bad(res: &Res) -> Option<&'static str> {
    match res {
        Res::Panic(_) => Some("panic"),
        Res::Err { variant, .. } if variant == "InternalError" => Some("internal-error"),
        _ => None,
    }
}

/// hostile integer spellings for the arguments the interpreter itself parses
/// (softfork cost / extension), under every strictness flag
fn directed_softfork(ctx: &mut Ctx) {
    let hostile: Vec<Vec<u8>> = vec![
        vec![], vec![0x00], vec![0x00, 0x00], vec![0x01], vec![0x00, 0x01], vec![0x80], vec![0x00, 0x80], vec![0xff], vec![0x7f],
        vec![0x00, 0xa0], vec![0x00, 0x00, 0xa0], vec![0; 9], vec![0x00, 0xff, 0xff, 0xff, 0xff, 0xff, 0xff, 0xff, 0xff],
        vec![0x01, 0, 0, 0, 0, 0, 0, 0, 0], vec![0x7f, 0xff, 0xff, 0xff, 0xff, 0xff, 0xff, 0xff], vec![0xa0],
    ];
    let flagsets = [
        ClvmFlags::empty(),
        ClvmFlags::CANONICAL_INTS,
        clvmr::chia_dialect::MEMPOOL_MODE,
        ClvmFlags::NEW_COST_MODEL | ClvmFlags::CANONICAL_INTS,
        ClvmFlags::NO_UNKNOWN_OPS,
        ClvmFlags::LIMIT_SOFTFORK | ClvmFlags::CANONICAL_INTS | ClvmFlags::ENABLE_GC,
    ];
    let mut id = 0u64;
    for (ci, cost) in hostile.iter().enumerate() {
        let cid = crate::report::DIRECTED | id;
        id += 1;
        if !ctx.want(cid) {
            continue;
        }
        for ext in hostile.iter() {
            for shape in 0..4 {
                let mut f = Forest::new();
                let c = f.atom(cost);
                let e = f.atom(ext);
                let pair = f.pair(c, e);
                let vars = [("c", c), ("e", e), ("p", pair)];
                let text = match shape {
                    0 => "(softfork (q . $c) (q . $e) (q . (q . 1)) (q . ()))",
                    1 => "(softfork (q . $c))",
                    2 => "(softfork (q . $p) (q . $e) (q . (q . 1)) (q . ()))",
                    _ => "(softfork (q . $c) (q . $p) (q . 1) (q . ()) (q . 1))",
                };
                let prog = crate::sexp::parse(&mut f, text, &vars);
                let env = f.nil();
                for fl in flagsets {
                    for vary in [0u64, 16] {
                        let Some(o) = run_case(&f, prog, env, fl, 0, ci as u64, vary) else { continue };
                        ctx.eval();
                        ctx.count("directed_softfork_argument_cases");
                        if let Some(sig) = bad(&o.res) {
                            let mut j = prog_json(&f, prog, env);
                            j["flags"] = flags_json(fl);
                            j["outcome"] = o.res.to_json();
                            ctx.violation(sig, j);
                        }
                    }
                }
            }
        }
    }
}

/// deep (non-tail) recursion: tens of thousands of nested evaluations, pending operators and open reclamation
/// checkpoints, at budgets that end the run at various depths
fn directed_deep_recursion(ctx: &mut Ctx) {
    let depths: &[u64] = if ctx.miri { &[30] } else if ctx.light { &[2500] } else { &[1000, 5460, 5470, 9000, 20000] };
    for (k, n) in depths.iter().enumerate() {
        let cid = crate::report::DIRECTED | (1 << 40) | k as u64;
        if !ctx.want(cid) {
            continue;
        }
        let mut f = Forest::new();
        let (prog, env) = crate::mon::c04::deep_recursion(&mut f, *n);
        for fl in [ClvmFlags::empty(), ClvmFlags::ENABLE_GC, ClvmFlags::ENABLE_GC | clvmr::chia_dialect::MEMPOOL_MODE | ClvmFlags::NEW_COST_MODEL] {
            for budget in [0u64, 1_000_000, 11_000_000] {
                let Some(o) = run_case(&f, prog, env, fl, budget, k as u64, 0) else { continue };
                ctx.eval();
                ctx.count("directed_deep_recursion_cases");
                if let Some(sig) = bad(&o.res) {
                    let mut j = json!({"program": "count(n) = n ? count(n-1) + 1 : 0", "n": n, "budget": budget});
                    j["flags"] = flags_json(fl);
                    j["outcome"] = o.res.to_json();
                    ctx.violation(sig, j);
                }
            }
        }
    }
}

pub fn run(ctx: &mut Ctx) {
    let miri = ctx.miri;
    directed_softfork(ctx);
    directed_deep_recursion(ctx);
    let n = ctx.n(250_000, 40_000_000);
    random_cases!(ctx, n, |r, _i| {
        let flags = gen_flags(&mut r, ClvmFlags::all());
        let mut f = Forest::new();
        let (prog, env) = match r.below(4) {
            0 => {
                let sz = r.usize(30) + 2;
                let p = gen_wild_program(&mut r, &mut f, sz);
                let sh = *r.pick(SHAPES);
                let sz = r.usize(20) + 1;
                let e = gen_tree(&mut r, &mut f, sh, sz, 60);
                (p, e)
            }
            1 => {
                let mut cfg = ProgCfg::full(flags);
                cfg.bls = !miri && r.chance(1, 8);
                cfg.secp = !miri && r.chance(1, 8);
                cfg.mutate_16 = 16;
                let p = gen_program(&mut f, &mut r, cfg);
                let mut pr = p.prog;
                for _ in 0..r.below(3) {
                    pr = mutate(&mut f, &mut r, pr);
                }
                (pr, p.env)
            }
            _ => {
                let mut cfg = ProgCfg::full(flags);
                cfg.bls = !miri && r.chance(1, 8);
                cfg.secp = !miri && r.chance(1, 8);
                cfg.big_atoms = r.chance(1, 4);
                let p = gen_program(&mut f, &mut r, cfg);
                (p.prog, p.env)
            }
        };
        let budget = *r.pick(&[0u64, 0, 1, 10, 10_000, 11_000_000, 11_000_000_000]);
        let Some(o) = run_case(&f, prog, env, flags, budget, r.u64(), if r.chance(1, 3) { 8 } else { 0 }) else {
            continue;
        };
        ctx.eval();
        ctx.count(&format!("run_{}", o.res.variant()));
        if !matches!(o.res.variant(), "PathIntoAtom") {
            ctx.nontrivial(case_key(&f, prog, env, &[&flags.bits().to_le_bytes()[..], &budget.to_le_bytes()[..]].concat()));
        }
        if let Some(sig) = bad(&o.res) {
            let mut j = prog_json(&f, prog, env);
            j["flags"] = flags_json(flags);
            j["budget"] = json!(budget);
            j["outcome"] = o.res.to_json();
            ctx.violation(sig, j);
        }
    });
    // every operator called directly with arbitrary argument lists
    let ops = all_ops();
    let n2 = ctx.n(400_000, 60_000_000);
    let th = ctx.thorough();
    random_cases!(ctx, n2, |r, _i| {
        let op = r.pick(&ops);
        if op.slow && (miri || !r.chance(1, 5)) {
            continue;
        }
        let mode = match r.below(if th { 60 } else { 200 }) {
            0 if !miri => SizeMode::Big,
            1..=15 => SizeMode::Medium,
            _ => SizeMode::Small,
        };
        let mut f = Forest::new();
        let args = if r.chance(1, 5) {
            let sh = *r.pick(SHAPES);
            {
                let sz = r.usize(30) + 1;
                gen_tree(&mut r, &mut f, sh, sz, 100)
            }
        } else {
            gen_args(&mut r, &mut f, op, mode)
        };
        let flags = gen_flags(&mut r, ClvmFlags::all());
        let budget = *r.pick(&[u64::MAX, 11_000_000_000, 1, 100, 100_000, 0]);
        // direct calls with budget 0 mean "no cost available" (only run_program maps 0 to unlimited)
        let big = mode == SizeMode::Big;
        let budget = if big { budget.min(11_000_000_000) } else { budget };
        let Some(c) = call(&f, op, args, flags, budget, r.u64(), if r.chance(1, 3) { 8 } else { 0 }) else {
            continue;
        };
        ctx.eval();
        ctx.count(&format!("op_{}", op.name));
        ctx.nontrivial(case_key(&f, args, args, &[op.name.as_bytes(), &flags.bits().to_le_bytes()[..], &budget.to_le_bytes()[..]].concat()));
        ctx.sample(|| call_record(&f, op, args, flags, budget, &c, 0));
        if let Some(sig) = bad(&c.out.res) {
            let rec = call_record(&f, op, args, flags, budget, &c, 0);
            ctx.violation(&format!("operator-{sig}"), rec);
        }
    });
}
