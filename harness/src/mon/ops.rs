//! Direct operator calls: operator table, signature-aware argument-list
//! generators and JSONL log records for the python oracles.
//! Also hosts the operator layers of C05/C06/C11 and the C09/C10/C32 loggers.

use crate::genr::{gen_atom, gen_bytes_atom, gen_int_atom, gen_tree, SHAPES};
use crate::model::{Forest, Id, MNode};
use crate::outcome::{call_op, flags_json, OpFn, Outcome, Res};
use crate::report::Ctx;
use crate::rng::Rng;
use crate::util::points;
use clvmr::allocator::Allocator;
use clvmr::chia_dialect::ClvmFlags;
use serde_json::{json, Value};

#[derive(Clone, Copy, Debug, PartialEq, Eq)]
pub enum K {
    Int,
    Bytes,
    Any,
    Pair,
    Shift,
    Index,
    G1,
    G2,
    H32,
    Amount,
    Pk1,
    Pkr,
}

pub struct OpDef {
    pub name: &'static str,
    pub f: OpFn,
    pub code: u32,
    pub fixed: &'static [K],
    /// kind of the variadic tail (None: fixed arity)
    pub var: Option<K>,
    pub slow: bool,
}

use clvmr::bls_ops::*;
use clvmr::core_ops::*;
use clvmr::keccak256_ops::op_keccak256;
use clvmr::more_ops::*;
use clvmr::secp_ops::*;
use clvmr::sha_tree_op::op_sha256_tree;

pub fn all_ops() -> Vec<OpDef> {
    use K::*;
    let d = |name, f: OpFn, code, fixed, var, slow| OpDef { name, f, code, fixed, var, slow };
    vec![
        d("i", op_if, 3, &[Any, Any, Any], None, false),
        d("c", op_cons, 4, &[Any, Any], None, false),
        d("f", op_first, 5, &[Pair], None, false),
        d("r", op_rest, 6, &[Pair], None, false),
        d("l", op_listp, 7, &[Any], None, false),
        d("x", op_raise, 8, &[], Some(Any), false),
        d("=", op_eq, 9, &[Bytes, Bytes], None, false),
        d(">s", op_gr_bytes, 10, &[Bytes, Bytes], None, false),
        d("sha256", op_sha256, 11, &[], Some(Bytes), false),
        d("substr", op_substr, 12, &[Bytes, Index], Some(Index), false),
        d("strlen", op_strlen, 13, &[Bytes], None, false),
        d("concat", op_concat, 14, &[], Some(Bytes), false),
        d("+", op_add, 16, &[], Some(Int), false),
        d("-", op_subtract, 17, &[], Some(Int), false),
        d("*", op_multiply, 18, &[], Some(Int), false),
        d("/", op_div, 19, &[Int, Int], None, false),
        d("divmod", op_divmod, 20, &[Int, Int], None, false),
        d(">", op_gr, 21, &[Int, Int], None, false),
        d("ash", op_ash, 22, &[Int, Shift], None, false),
        d("lsh", op_lsh, 23, &[Int, Shift], None, false),
        d("logand", op_logand, 24, &[], Some(Int), false),
        d("logior", op_logior, 25, &[], Some(Int), false),
        d("logxor", op_logxor, 26, &[], Some(Int), false),
        d("lognot", op_lognot, 27, &[Int], None, false),
        d("point_add", op_point_add, 29, &[], Some(G1), true),
        d("pubkey_for_exp", op_pubkey_for_exp, 30, &[Int], None, true),
        d("not", op_not, 32, &[Any], None, false),
        d("any", op_any, 33, &[], Some(Any), false),
        d("all", op_all, 34, &[], Some(Any), false),
        d("coinid", op_coinid, 48, &[H32, H32, Amount], None, false),
        d("g1_subtract", op_bls_g1_subtract, 49, &[], Some(G1), true),
        d("g1_multiply", op_bls_g1_multiply, 50, &[G1, Int], None, true),
        d("g1_negate", op_bls_g1_negate, 51, &[G1], None, true),
        d("g2_add", op_bls_g2_add, 52, &[], Some(G2), true),
        d("g2_subtract", op_bls_g2_subtract, 53, &[], Some(G2), true),
        d("g2_multiply", op_bls_g2_multiply, 54, &[G2, Int], None, true),
        d("g2_negate", op_bls_g2_negate, 55, &[G2], None, true),
        d("g1_map", op_bls_map_to_g1, 56, &[Bytes], Some(Bytes), true),
        d("g2_map", op_bls_map_to_g2, 57, &[Bytes], Some(Bytes), true),
        d("bls_pairing_identity", op_bls_pairing_identity, 58, &[], Some(G1), true),
        d("bls_verify", op_bls_verify, 59, &[G2], Some(G1), true),
        d("modpow", op_modpow, 60, &[Int, Int, Int], None, false),
        d("mod", op_mod, 61, &[Int, Int], None, false),
        d("keccak256", op_keccak256, 62, &[], Some(Bytes), false),
        d("sha256tree", op_sha256_tree, 63, &[Any], None, false),
        d("secp256k1_verify", op_secp256k1_verify, 64, &[Pk1, H32, Bytes], None, true),
        d("secp256r1_verify", op_secp256r1_verify, 65, &[Pkr, H32, Bytes], None, true),
    ]
}

pub fn op_by_name(name: &str) -> OpDef {
    all_ops().into_iter().find(|o| o.name == name).unwrap()
}

#[derive(Clone, Copy, PartialEq, Eq, Debug)]
pub enum SizeMode {
    Small,
    Medium,
    Big,
}

fn gen_kind(r: &mut Rng, f: &mut Forest, k: K, mode: SizeMode, op: &str) -> Id {
    let p = points();
    match k {
        K::Int => {
            let b = match mode {
                SizeMode::Small => gen_int_atom(r),
                SizeMode::Medium => {
                    if r.chance(1, 2) {
                        gen_int_atom(r)
                    } else {
                        let n = *r.pick(&[60usize, 128, 255, 256, 257, 300, 1023, 1024, 1025, 2047, 2048, 2049, 4000]);
                        let mut b = r.bytes(n);
                        match r.below(4) {
                            0 => b[0] = 0,
                            1 => b[0] |= 0x80,
                            2 => b[0] &= 0x7f,
                            _ => {}
                        }
                        b
                    }
                }
                SizeMode::Big => {
                    let n = *r.pick(&[10_000usize, 65_535, 65_536, 100_000, 300_000, 800_000, 1_000_000]);
                    let pat = [r.u8() & 0x7f, r.u8(), r.u8()];
                    let mut b = Vec::with_capacity(n);
                    while b.len() < n {
                        b.extend_from_slice(&pat);
                    }
                    b.truncate(n);
                    b
                }
            };
            // keep modpow operands modest (CPU), the exponent in particular
            let b = if op == "modpow" && b.len() > 300 { b[..300].to_vec() } else { b };
            f.atom(&b)
        }
        K::Bytes => {
            let b = match mode {
                SizeMode::Small => gen_bytes_atom(r, 100),
                SizeMode::Medium => gen_bytes_atom(r, 2049),
                SizeMode::Big => {
                    let n = *r.pick(&[8_191usize, 8_192, 65_536, 1_048_575, 1_048_576, 3_000_000]);
                    vec![r.u8(); n]
                }
            };
            f.atom(&b)
        }
        K::Any => match r.below(5) {
            0 => f.nil(),
            1 => {
                // per-byte charges of tree-shaped operands only show on long atoms
                let b = match mode {
                    SizeMode::Small => gen_atom(r, 40),
                    SizeMode::Medium => vec![r.u8(); *r.pick(&[1023usize, 1024, 1025, 2048, 5000])],
                    _ => vec![r.u8(); *r.pick(&[100_000usize, 600_000, 1_100_000])],
                };
                f.atom(&b)
            }
            _ => {
                let sh = *r.pick(SHAPES);
                let size = if mode == SizeMode::Small { r.usize(12) + 1 } else { r.usize(200) + 1 };
                let max_atom = if mode == SizeMode::Small { 40 } else { 3000 };
                gen_tree(r, f, sh, size, max_atom)
            }
        },
        K::Pair => {
            let a = gen_kind(r, f, K::Any, mode, op);
            let b = gen_kind(r, f, K::Any, mode, op);
            f.pair(a, b)
        }
        K::Shift => {
            let v: i128 = match r.below(8) {
                0 => 0,
                1 => 65535,
                2 => -65535,
                3 => 65536,
                4 => -65536,
                5 => r.below(70000) as i128 - 35000,
                _ => r.below(300) as i128 - 100,
            };
            f.int(v)
        }
        K::Index => {
            let v: i128 = match r.below(8) {
                0 => -1,
                1 => 0,
                2 => r.below(3000) as i128,
                _ => r.below(40) as i128,
            };
            f.int(v)
        }
        K::G1 => {
            let mut b = r.pick(&p.g1).clone();
            corrupt_point(r, &mut b);
            f.atom(&b)
        }
        K::G2 => {
            let mut b = r.pick(&p.g2).clone();
            corrupt_point(r, &mut b);
            f.atom(&b)
        }
        K::H32 => {
            let n = if r.chance(1, 10) { *r.pick(&[0usize, 31, 33]) } else { 32 };
            let b = r.bytes(n);
            f.atom(&b)
        }
        K::Amount => {
            let b = match r.below(8) {
                0 => vec![0u8],
                1 => vec![0, 1],
                2 => vec![0x80],
                3 => vec![0, 0xff, 0xff, 0xff, 0xff, 0xff, 0xff, 0xff, 0xff],
                4 => vec![1, 0, 0, 0, 0, 0, 0, 0, 0],
                5 => vec![0, 0x80],
                _ => crate::model::encode_int((r.u64() >> r.below(64)) as i128),
            };
            f.atom(&b)
        }
        K::Pk1 | K::Pkr => {
            // a whole valid triple is produced by `gen_args`; here only the key
            let t = if k == K::Pk1 { r.pick(&p.k1) } else { r.pick(&p.r1) };
            f.atom(&t.0)
        }
    }
}

fn corrupt_point(r: &mut Rng, b: &mut Vec<u8>) {
    match r.below(24) {
        0 => b[0] ^= 0x20,                      // sign flip: still valid (negation)
        1 => b[0] ^= 0x80,                      // compression flag
        2 => b[0] ^= 0x40,                      // infinity flag
        3 => {
            let i = r.usize(b.len());
            b[i] ^= 1 << r.below(8);
        }
        4 => {
            b.pop();
        }
        5 => b.push(0),
        6 => {
            for x in b.iter_mut().skip(1) {
                *x = 0xff;
            }
        }
        _ => {}
    }
}

/// argument list for an operator; mostly well-typed, sometimes perturbed
pub fn gen_args(r: &mut Rng, f: &mut Forest, op: &OpDef, mode: SizeMode) -> Id {
    let mut items: Vec<Id> = Vec::new();
    if op.name.starts_with("secp") && r.chance(5, 6) {
        let p = points();
        let t = if op.name == "secp256k1_verify" { r.pick(&p.k1) } else { r.pick(&p.r1) }.clone();
        let mut sig = t.2.clone();
        let mut msg = t.1.clone();
        match r.below(10) {
            0 => {
                let i = r.usize(sig.len());
                sig[i] ^= 1 << r.below(8);
            }
            1 => {
                let i = r.usize(msg.len());
                msg[i] ^= 1 << r.below(8);
            }
            2 => {
                sig.pop();
            }
            3 => sig = vec![0; 64],
            4 | 5 => {
                // algebraic twins of a valid signature: (r, n - s) verifies mathematically as well (the "high-S" twin;
                // libsecp256k1 semantics reject it for secp256k1, secp256r1 accepts it), (r, s + n) and (r + n, s) do not fit
                sig = crate::genr::signature_twin(&sig, op.name == "secp256k1_verify", r.below(3));
            }
            _ => {}
        }
        items = vec![f.atom(&t.0), f.atom(&msg), f.atom(&sig)];
    } else {
        for k in op.fixed {
            items.push(gen_kind(r, f, *k, mode, op.name));
        }
        if let Some(k) = op.var {
            let n = match op.name {
                "substr" => r.below(2),
                "g1_map" | "g2_map" => r.below(2),
                "bls_pairing_identity" | "bls_verify" => r.below(3) * 2,
                _ => {
                    if mode == SizeMode::Big {
                        r.below(3)
                    } else {
                        *r.pick(&[0u64, 1, 1, 2, 2, 3, 4, 5, 8, 20])
                    }
                }
            };
            for j in 0..n {
                let kk = match (op.name, j % 2) {
                    ("bls_pairing_identity", 1) => K::G2,
                    ("bls_verify", 1) => K::Bytes,
                    _ => k,
                };
                items.push(gen_kind(r, f, kk, mode, op.name));
            }
        }
    }
    // perturbations
    let mut tail = f.nil();
    match r.below(40) {
        0 => {
            items.pop();
        }
        1 => {
            let x = gen_kind(r, f, K::Any, SizeMode::Small, op.name);
            items.push(x);
        }
        2 if !items.is_empty() => {
            // a pair where an atom is expected, at a random position
            let i = r.usize(items.len());
            let x = f.atom(&[1]);
            items[i] = f.pair(x, x);
        }
        3 => {
            // improper terminator
            let b = gen_atom(r, 5);
            tail = f.atom(&b);
        }
        4 => {
            // completely arbitrary argument tree
            let sh = *r.pick(SHAPES);
            let sz = r.usize(20) + 1;
            return gen_tree(r, f, sh, sz, 40);
        }
        5 if !items.is_empty() => {
            let i = r.usize(items.len());
            let b = gen_atom(r, 60);
            items[i] = f.atom(&b);
        }
        _ => {}
    }
    f.list_with_tail(&items, tail)
}

pub fn flat_args(f: &Forest, args: Id) -> (Vec<Id>, Id) {
    let mut v = Vec::new();
    let mut cur = args;
    while let MNode::Pair(a, b) = f.get(cur) {
        v.push(*a);
        cur = *b;
    }
    (v, cur)
}

/// JSON description of one argument: atoms as hex (long constant/periodic
/// atoms as a pattern descriptor), pairs as classic serialisation
pub fn arg_json(f: &Forest, id: Id) -> Value {
    match f.get(id) {
        MNode::Atom(b) => {
            if b.len() > 4096 {
                for plen in [1usize, 3] {
                    if b.len() >= plen && b.iter().enumerate().all(|(i, x)| *x == b[i % plen]) {
                        return json!({"pat": hex::encode(&b[..plen]), "len": b.len()});
                    }
                }
            }
            json!(hex::encode(b))
        }
        MNode::Pair(_, _) => {
            let (_, _, len) = f.expanded_stats(id);
            if len > 100_000 {
                json!({"tree_hash": hex::encode(f.tree_hash(id)), "big": true})
            } else {
                json!({"tree": hex::encode(f.classic_bytes(id))})
            }
        }
    }
}

thread_local! {
    /// when set, `call` performs the operator call twice on the same allocator and reports the second outcome
    pub static REPEAT_IN_SAME_ALLOCATOR: std::cell::Cell<bool> = const { std::cell::Cell::new(false) };
}

pub struct Call {
    pub out: Outcome,
    /// classic serialisation of the result (bounded), when successful
    pub result: Option<Vec<u8>>,
}

pub fn call(
    f: &Forest,
    op: &OpDef,
    args: Id,
    flags: ClvmFlags,
    budget: u64,
    plan_seed: u64,
    vary: u64,
) -> Option<Call> {
    let mut a = Allocator::new();
    let mut plan = crate::util::repr_plan(plan_seed, vary);
    let n = f.materialize(&mut a, args, &mut plan).ok()?;
    // sha256tree on a DAG does work proportional to the *expanded* tree: keep the budget finite
    let budget = if op.name == "sha256tree" { budget.min(300_000_000) } else { budget };
    let mut out = call_op(&mut a, op.f, n, budget, flags);
    if REPEAT_IN_SAME_ALLOCATOR.with(|r| r.get()) {
        // allocator history: the same call once more in the same allocator (caches, earlier failures)
        out = call_op(&mut a, op.f, n, budget, flags);
    }
    let result = out.node.and_then(|n| {
        let mut g = Forest::new();
        let id = g.import(&a, n);
        let (_, _, len) = g.expanded_stats(id);
        if len <= 1_000_000 { Some(g.classic_bytes(id)) } else { None }
    });
    Some(Call { out, result })
}

pub fn call_record(f: &Forest, op: &OpDef, args: Id, flags: ClvmFlags, budget: u64, c: &Call, case: u64) -> Value {
    let (items, tail) = flat_args(f, args);
    json!({
        "case": case,
        "op": op.name,
        "flags": flags.bits(),
        "budget": budget,
        "args": items.iter().map(|i| arg_json(f, *i)).collect::<Vec<_>>(),
        "tail": arg_json(f, tail),
        "res": match &c.out.res {
            Res::Ok { cost, hash } => json!({"ok": true, "cost": cost, "tree_hash": hex::encode(hash),
                "result": c.result.as_ref().map(|b| if b.len() <= 8192 { json!(hex::encode(b)) } else { json!({"len": b.len(), "sha256": hex::encode(crate::model::sha256(&[b]))}) })}),
            Res::Err { variant, msg } => json!({"ok": false, "variant": variant, "msg": msg}),
            Res::Panic(m) => json!({"ok": false, "variant": "PANIC", "msg": m}),
        },
    })
}

fn pick_mode(r: &mut Rng, thorough: bool) -> SizeMode {
    match r.below(if thorough { 40 } else { 120 }) {
        0 => SizeMode::Big,
        1..=12 => SizeMode::Medium,
        _ => SizeMode::Small,
    }
}

// ---------------------------------------------------------------- C11 operator layer

pub fn run_c11_ops(ctx: &mut Ctx) {
    let ops = all_ops();
    let n = ctx.n(150_000, 20_000_000);
    let th = ctx.thorough();
    crate::random_cases!(ctx, n, |r, i| {
        let i = i | (1 << 40);
        let _ = i;
        let op = r.pick(&ops);
        if op.slow && !r.chance(1, 6) {
            continue;
        }
        let mode = pick_mode(&mut r, th);
        let mut f = Forest::new();
        let args = gen_args(&mut r, &mut f, op, mode);
        let base = crate::genr::gen_flags(&mut r, ClvmFlags::all()) & !ClvmFlags::NEW_COST_MODEL;
        let plan = r.u64();
        let budget = if mode == SizeMode::Big { 12_000_000_000 } else { u64::MAX };
        let (Some(c0), Some(c1)) = (
            call(&f, op, args, base, budget, plan, 0),
            call(&f, op, args, base | ClvmFlags::NEW_COST_MODEL, budget, plan, 0),
        ) else {
            continue;
        };
        ctx.eval();
        if let (Res::Ok { cost: k0, hash: h0 }, Res::Ok { cost: k1, hash: h1 }) = (&c0.out.res, &c1.out.res) {
            ctx.count(&format!("op_both_ok_{}", op.name));
            if k0 != k1 {
                ctx.nontrivial(crate::util::case_key(&f, args, args, op.name.as_bytes()));
            }
            if h0 != h1 {
                let rec = call_record(&f, op, args, base, budget, &c0, 0);
                ctx.violation("operator-result-depends-on-cost-model", json!({"old": rec, "new": c1.out.res.to_json(), "flags": flags_json(base)}));
            }
        }
    });
}

// ---------------------------------------------------------------- C06

const DIVOPS: &[&str] = &["/", "divmod", "mod", "modpow"];

pub fn run_c06(ctx: &mut Ctx) {
    let ops: Vec<OpDef> = DIVOPS.iter().map(|n| op_by_name(n)).collect();
    // directed: all pairs of machine-word boundary values through div/divmod/mod,
    // and boundary triples through modpow
    {
        let b = crate::genr::boundary_ints();
        let mut id = 0u64;
        for (oi, op) in ops.iter().enumerate() {
            for (i, x) in b.iter().enumerate() {
                let cid = crate::report::DIRECTED | id;
                id += 1;
                if !ctx.want(cid) {
                    continue;
                }
                let mut r = ctx.rng(cid);
                for (j, y) in b.iter().enumerate() {
                    let mut f = Forest::new();
                    let xs = f.atom(x);
                    let ys = f.atom(y);
                    let args = if op.name == "modpow" {
                        let e = f.atom(&b[(i * 7 + j * 3 + oi) % b.len()]);
                        f.list(&[xs, e, ys])
                    } else {
                        f.list(&[xs, ys])
                    };
                    for base in [ClvmFlags::empty(), ClvmFlags::NEW_COST_MODEL] {
                        let vary = if r.chance(1, 2) { 0 } else { 16 };
                        let plan = r.u64();
                        let (Some(c0), Some(c1)) = (
                            call(&f, op, args, base, u64::MAX, plan, vary),
                            call(&f, op, args, base | ClvmFlags::MALACHITE, u64::MAX, plan, vary),
                        ) else {
                            continue;
                        };
                        ctx.eval();
                        ctx.count("directed_boundary_pairs");
                        if c0.out.res.is_ok() {
                            ctx.nontrivial(crate::util::case_key(&f, args, args, &[op.name.as_bytes(), &base.bits().to_le_bytes()[..]].concat()));
                        }
                        if c0.out.res.same_kind(&c1.out.res) && c0.out.counts != c1.out.counts {
                            let rec = call_record(&f, op, args, base, u64::MAX, &c0, 0);
                            ctx.violation("malachite-changes-allocator-counts", json!({"num_bigint": rec, "counts_num_bigint": c0.out.counts.to_json(),
                                "counts_malachite": c1.out.counts.to_json()}));
                        }
                        if !(c0.out.res.same_kind(&c1.out.res) && c0.result == c1.result) {
                            let rec = call_record(&f, op, args, base, u64::MAX, &c0, 0);
                            ctx.violation("malachite-differs", json!({"num_bigint": rec, "malachite": c1.out.res.to_json(),
                                "malachite_result": c1.result.as_ref().map(hex::encode)}));
                        }
                    }
                }
            }
        }
    }
    let n = ctx.n(400_000, 60_000_000);
    let th = ctx.thorough();
    crate::random_cases!(ctx, n, |r, _i| {
        let op = r.pick(&ops);
        let mode = match r.below(if th { 30 } else { 60 }) {
            0..=9 => SizeMode::Medium,
            _ => SizeMode::Small,
        };
        let mut f = Forest::new();
        let args = gen_args(&mut r, &mut f, op, mode);
        let base = crate::genr::gen_flags(&mut r, ClvmFlags::all()) & !ClvmFlags::MALACHITE;
        let plan = r.u64();
        let vary = if r.chance(1, 2) { 0 } else { r.range(1, 16) };
        let budget = match r.below(6) {
            0 => r.range(1, 30_000),
            _ => u64::MAX,
        };
        let (Some(c0), Some(c1)) = (
            call(&f, op, args, base, budget, plan, vary),
            call(&f, op, args, base | ClvmFlags::MALACHITE, budget, plan, vary),
        ) else {
            continue;
        };
        ctx.eval();
        ctx.count(&format!("{}_{}", op.name, c0.out.res.variant()));
        let parsed = match &c0.out.res {
            Res::Ok { .. } => true,
            Res::Err { variant, .. } => variant == "DivisionByZero" || variant == "CostExceeded",
            _ => false,
        };
        if parsed {
            ctx.nontrivial(crate::util::case_key(&f, args, args, &[op.name.as_bytes(), &base.bits().to_le_bytes()[..], &budget.to_le_bytes()[..]].concat()));
            ctx.sample(|| call_record(&f, op, args, base, budget, &c0, 0));
        }
        // allocator accounting is part of what a caller can observe (atom_count / pair_count / heap_size)
        if c0.out.res.same_kind(&c1.out.res) && c0.out.counts != c1.out.counts {
            let rec = call_record(&f, op, args, base, budget, &c0, 0);
            ctx.violation("malachite-changes-allocator-counts", json!({"num_bigint": rec, "counts_num_bigint": c0.out.counts.to_json(),
                "counts_malachite": c1.out.counts.to_json(), "plan_seed": plan, "vary": vary}));
        }
        let same = c0.out.res.same_kind(&c1.out.res) && c0.result == c1.result;
        if !same {
            let rec = call_record(&f, op, args, base, budget, &c0, 0);
            ctx.violation("malachite-differs", json!({"num_bigint": rec, "malachite": c1.out.res.to_json(),
                "malachite_result": c1.result.as_ref().map(hex::encode), "plan_seed": plan, "vary": vary}));
        }
    });
    // through run_program
    let n2 = ctx.n(60_000, 6_000_000);
    crate::random_cases!(ctx, n2, |r, i| {
        let _ = i;
        let base = crate::genr::gen_flags(&mut r, ClvmFlags::all()) & !ClvmFlags::MALACHITE;
        let mut cfg = crate::genr::ProgCfg::full(base);
        cfg.bls = false;
        cfg.secp = false;
        cfg.guards = r.chance(1, 4);
        let mut f = Forest::new();
        let p = crate::util::gen_program(&mut f, &mut r, cfg);
        if !crate::util::contains_atom(&f, p.prog, &[&[19], &[20], &[60], &[61]]) {
            continue;
        }
        let plan = r.u64();
        let (Some(o0), Some(o1)) = (
            crate::util::run_case(&f, p.prog, p.env, base, 0, plan, 0),
            crate::util::run_case(&f, p.prog, p.env, base | ClvmFlags::MALACHITE, 0, plan, 0),
        ) else {
            continue;
        };
        ctx.eval();
        ctx.count("program_level_cases");
        if o0.res.same_kind(&o1.res) && o0.counts != o1.counts {
            let mut j = crate::util::prog_json(&f, p.prog, p.env);
            j["flags"] = flags_json(base);
            j["counts_num_bigint"] = o0.counts.to_json();
            j["counts_malachite"] = o1.counts.to_json();
            ctx.violation("malachite-changes-allocator-counts", j);
        }
        if !o0.res.same_kind(&o1.res) {
            let mut j = crate::util::prog_json(&f, p.prog, p.env);
            j["flags"] = flags_json(base);
            j["num_bigint"] = o0.res.to_json();
            j["malachite"] = o1.res.to_json();
            ctx.violation("malachite-differs-in-program", j);
        }
    });
}
