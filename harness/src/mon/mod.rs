//! one monitor module per property

use crate::report::Ctx;

pub mod alloc;
pub mod c02;
pub mod c03;
pub mod c04;
pub mod c05;
pub mod c07;
pub mod c08;
pub mod c25;
pub mod c30;
pub mod logs;
pub mod ops;
pub mod serde1;
pub mod serde2;
pub mod wheel;

pub fn dispatch(ctx: &mut Ctx) {
    // monitors that run several random-case loops one after another share the time budget between them
    ctx.sections = match ctx.prop.as_str() {
        "C13" => 3,
        // (C05 is left out on purpose: its three builds must produce logs that are prefixes of one another, so it may
        // only ever be cut at the very end)
        "C06" | "C10" | "C11" | "C20" | "C25" | "C30" | "C32" => 2,
        _ => 1,
    };
    match ctx.prop.as_str() {
        "C01" => logs::run_c01(ctx),
        "C09" => logs::run_c09(ctx),
        "C10" => logs::run_c10(ctx),
        "C32" => logs::run_c32(ctx),
        "C02" => c02::run(ctx),
        "C03" => c03::run(ctx),
        "C04" => c04::run(ctx),
        "C05" => c05::run(ctx),
        "C06" => ops::run_c06(ctx),
        "C07" => c07::run_c07(ctx),
        "C08" => c08::run_c08(ctx),
        "C11" => c07::run_c11(ctx),
        "C12" => alloc::run_c12(ctx),
        "C13" => alloc::run_c13(ctx),
        "C14" => alloc::run_c14(ctx),
        "C15" => serde1::run_c15(ctx),
        "C16" => serde1::run_c16(ctx),
        "C17" => serde1::run_c17(ctx),
        "C18" => serde1::run_c18(ctx),
        "C29" => serde1::run_c29(ctx),
        "C19" => serde2::run_c19(ctx),
        "C20" => serde2::run_c20(ctx),
        "C21" => serde2::run_c21(ctx),
        "C22" => serde2::run_c22(ctx),
        "C23" => serde2::run_c23(ctx),
        "C24" => serde2::run_c24(ctx),
        "C25" => c25::run(ctx),
        "C26" | "C28" => wheel::run(ctx),
        "C30" => c30::run(ctx),
        "C31" => c08::run_c31(ctx),
        p => panic!("no monitor for {p}"),
    }
}

/// iterate random cases with the standard skip/replay/time-budget logic
#[macro_export]
macro_rules! random_cases {
    ($ctx:expr, $n:expr, |$r:ident, $i:ident| $body:block) => {{
        let n: u64 = $n;
        $ctx.begin_random_section();
        for $i in 0..n {
            if $ctx.only_case.is_none() && $ctx.out_of_time() {
                $ctx.count("stopped_by_time_budget");
                break;
            }
            if !$ctx.want($i) {
                continue;
            }
            let mut $r = $ctx.rng($i);
            $body
        }
    }};
}
