//! one monitor module per property

use crate::report::Ctx;

pub mod c04;

pub fn dispatch(ctx: &mut Ctx) {
    match ctx.prop.as_str() {
        "C04" => c04::run(ctx),
        p => panic!("no monitor for {p}"),
    }
}

/// iterate random cases with the standard skip/replay/time-budget logic
#[macro_export]
macro_rules! random_cases {
    ($ctx:expr, $n:expr, |$r:ident, $i:ident| $body:block) => {{
        let n: u64 = $n;
        for $i in 0..n {
            if $ctx.only_case.is_none() && $ctx.out_of_time() {
                $ctx.count("stopped_by_time_budget");
                break;
            }
            if !$ctx.want($i) {
                continue;
            }
            let mut $r = $ctx.rng($i);
            $body
        }
    }};
}
