//! C15 classic round trip + canonical, C16 classic decoders total and agree,
//! C17 back-reference serializer, C18 back-reference decoders, C29 limits.

use crate::genr::{gen_atom, gen_tree, mutate_bytes, nth_string, Shape, DENSE_ALPHABET, SHAPES};
use crate::meter::measure;
use crate::model::{node_tree_hash, nodes_equal, Forest, Id, MNode};
use crate::outcome::guarded;
use crate::random_cases;
use crate::report::{Ctx, DIRECTED};
use crate::rng::Rng;
use clvmr::allocator::{Allocator, NodePtr};
use clvmr::error::EvalErr;
use clvmr::serde::{
    is_canonical_serialization, node_from_bytes, node_from_bytes_backrefs, node_from_bytes_backrefs_old, node_from_stream,
    node_to_bytes_backrefs, node_to_bytes_backrefs_limit, node_to_bytes_limit, parse_triples, serialized_length,
    serialized_length_from_bytes, serialized_length_from_bytes_trusted, tree_hash_from_stream, ObjectCache, ParsedTriple,
};
use serde_json::{json, Value};
use std::io::Cursor;

const BOUNDARY_LENS: &[usize] = &[0x3e, 0x3f, 0x40, 0x41, 0x1fff, 0x2000, 0x2001, 0xfffff, 0x100000, 0x100001];

/// a tree for serialization tests; returns None when the expansion is too big
fn ser_tree(r: &mut Rng, f: &mut Forest, max_expanded: u128) -> Option<Id> {
    ser_tree_spine(r, f, max_expanded, 100_000)
}

fn ser_tree_spine(r: &mut Rng, f: &mut Forest, max_expanded: u128, deep: usize) -> Option<Id> {
    let sh = *r.pick(SHAPES);
    let size = match sh {
        Shape::Doubling => r.usize(14) + 1,
        Shape::LeftSpine | Shape::RightSpine => {
            if r.chance(1, 150) {
                deep
            } else {
                r.usize(300) + 1
            }
        }
        _ => r.usize(120) + 1,
    };
    let max_atom = if r.chance(1, 40) { 0x2100 } else { 80 };
    let mut t = gen_tree(r, f, sh, size, max_atom);
    if r.chance(1, 30) {
        // an atom exactly at a length-prefix boundary
        let n = if r.chance(1, 6) { *r.pick(BOUNDARY_LENS) } else { *r.pick(&BOUNDARY_LENS[..7]) };
        let b = vec![r.u8() | 0x80; n];
        let a = f.atom(&b);
        t = if r.chance(1, 2) { f.pair(a, t) } else { f.pair(t, a) };
        if r.chance(1, 2) {
            t = f.pair(a, t); // and repeated (back-reference to a big atom)
        }
    }
    let (_, _, len) = f.expanded_stats(t);
    if len > max_expanded { None } else { Some(t) }
}

fn tree_json(f: &Forest, t: Id) -> Value {
    let (pairs, atoms, len) = f.expanded_stats(t);
    if len <= 2000 {
        json!({"classic": hex::encode(f.classic_bytes(t)), "pairs": pairs.to_string(), "atoms": atoms.to_string()})
    } else {
        json!({"tree_hash": hex::encode(f.tree_hash(t)), "serialized_len": len.to_string(), "pairs": pairs.to_string(), "atoms": atoms.to_string()})
    }
}

// ---------------------------------------------------------------- C15

fn check15(ctx: &mut Ctx, r: &mut Rng, f: &Forest, t: Id) {
    let mut a = Allocator::new();
    let mut plan = crate::util::repr_plan(r.u64(), if r.chance(1, 2) { 0 } else { 6 });
    let Ok(n) = f.materialize(&mut a, t, &mut plan) else { return };
    let model = f.classic_bytes(t);
    ctx.eval();
    let fail = |ctx: &mut Ctx, sig: &str, d: Value| {
        ctx.violation(sig, json!({"tree": tree_json(f, t), "detail": d}));
    };
    let bytes = match node_to_bytes_limit(&a, n, model.len() + 16) {
        Ok(b) => b,
        Err(e) => {
            fail(ctx, "serialize-failed", json!({"error": e.to_string(), "expected_len": model.len()}));
            return;
        }
    };
    if bytes != model {
        fail(ctx, "bytes-differ-from-model-serialization", json!({"got_len": bytes.len(), "model_len": model.len()}));
        return;
    }
    // decode gives an identical tree
    let mut b2 = Allocator::new();
    match node_from_bytes(&mut b2, &bytes) {
        Ok(m) => {
            if !f.eq_node(t, &b2, m) {
                fail(ctx, "round-trip-tree-differs", json!({}));
            }
        }
        Err(e) => fail(ctx, "round-trip-decode-failed", json!({"error": e.to_string()})),
    }
    if !is_canonical_serialization(&bytes) {
        fail(ctx, "own-serialization-not-canonical", json!({"len": bytes.len()}));
    }
    let len = bytes.len() as u64;
    let mut with_tail = bytes.clone();
    with_tail.extend_from_slice(&[0xff, 0x01, 0xfe]);
    for (name, buf) in [("exact", &bytes), ("trailing-bytes", &with_tail)] {
        match serialized_length_from_bytes_trusted(buf) {
            Ok(l) if l == len => {}
            other => fail(ctx, "trusted-length-wrong", json!({"input": name, "got": format!("{other:?}"), "expected": len})),
        }
        match serialized_length_from_bytes(buf) {
            Ok(l) if l == len => {}
            other => fail(ctx, "untrusted-length-wrong", json!({"input": name, "got": format!("{other:?}"), "expected": len})),
        }
    }
    let mut slc = ObjectCache::new(serialized_length);
    match slc.get_or_calculate(&a, &n, None) {
        Some(l) if *l == len => {}
        other => fail(ctx, "object-cache-length-wrong", json!({"got": format!("{other:?}"), "expected": len})),
    }
    if f.atom_bytes(t).is_none() || BOUNDARY_LENS.contains(&f.atom_bytes(t).map(|b| b.len()).unwrap_or(1)) {
        ctx.nontrivial_bytes(&[&f.tree_hash(t)]);
        ctx.sample(|| tree_json(f, t));
    }
}

/// converse direction: a decodable + canonical input re-serialises identically
fn check15_converse(ctx: &mut Ctx, b: &[u8]) {
    let mut a = Allocator::new();
    let mut cur = Cursor::new(b);
    let Ok(n) = node_from_stream(&mut a, &mut cur) else { return };
    ctx.eval();
    if !is_canonical_serialization(b) {
        ctx.count("converse_decodable_not_canonical");
        return;
    }
    ctx.count("converse_decodable_and_canonical");
    match node_to_bytes_limit(&a, n, b.len() + 16) {
        Ok(out) if out == b => {}
        Ok(out) => ctx.violation("canonical-input-reserializes-differently", json!({"input": hex::encode(b), "output": hex::encode(&out[..out.len().min(200)])})),
        Err(e) => ctx.violation("canonical-input-reserialize-failed", json!({"input": hex::encode(b), "error": e.to_string()})),
    }
    ctx.nontrivial_bytes(&[b]);
}

pub fn run_c15(ctx: &mut Ctx) {
    // directed: single atoms at every length-prefix boundary
    let mut id = 0;
    let mut lens: Vec<usize> = BOUNDARY_LENS.to_vec();
    lens.extend_from_slice(&[0, 1, 2]);
    if !ctx.miri {
        lens.extend_from_slice(&[0x7ffffff, 0x8000000, 0x8000001]);
    }
    for n in lens {
        for first in [0x00u8, 0x7f, 0x80, 0xff] {
            let cid = DIRECTED | id;
            id += 1;
            if n >= 0x7ffffff && first != 0x80 {
                continue;
            }
            if !ctx.want(cid) {
                continue;
            }
            let mut r = ctx.rng(cid);
            let mut f = Forest::new();
            let mut b = vec![0x55u8; n];
            if n > 0 {
                b[0] = first;
            }
            let a = f.atom(&b);
            let t = if n > 0x100000 || r.chance(1, 2) { a } else { f.pair(a, a) };
            ctx.count(&format!("boundary_atom_len_{n:#x}"));
            check15(ctx, &mut r, &f, t);
        }
    }
    // write_atom prefixes beyond what an Allocator can hold (2^32 .. 2^34-1)
    if ctx.thorough() && !ctx.miri {
        let cid = DIRECTED | id;
        if ctx.want(cid) {
            struct Sink(u64, Vec<u8>);
            impl std::io::Write for Sink {
                fn write(&mut self, b: &[u8]) -> std::io::Result<usize> {
                    if self.1.len() < 8 {
                        let k = (8 - self.1.len()).min(b.len());
                        self.1.extend_from_slice(&b[..k]);
                    }
                    self.0 += b.len() as u64;
                    Ok(b.len())
                }
                fn flush(&mut self) -> std::io::Result<()> {
                    Ok(())
                }
            }
            for n in [1u64 << 32, (1 << 33) + 5] {
                let big = vec![0u8; n as usize];
                let mut s = Sink(0, vec![]);
                let r = clvmr::serde::write_atom::write_atom(&mut s, &big);
                let exp = [0xf8 | (n >> 32) as u8, (n >> 24) as u8, (n >> 16) as u8, (n >> 8) as u8, n as u8];
                if r.is_err() || s.0 != n + 5 || s.1[..5] != exp {
                    ctx.violation("write_atom-huge-prefix-wrong", json!({"len": n, "written": s.0, "prefix": hex::encode(&s.1)}));
                }
                ctx.eval();
                ctx.count("write_atom_beyond_4GiB");
            }
        }
    }
    let n = ctx.n(120_000, 20_000_000);
    random_cases!(ctx, n, |r, _i| {
        if r.chance(3, 4) {
            let mut f = Forest::new();
            let Some(t) = ser_tree(&mut r, &mut f, 3_000_000) else { continue };
            check15(ctx, &mut r, &f, t);
        } else {
            // converse on mutated valid serialisations and noise
            let mut f = Forest::new();
            let Some(t) = ser_tree(&mut r, &mut f, 5_000) else { continue };
            let b = f.classic_bytes(t);
            let m = if r.chance(1, 3) { b } else { mutate_bytes(&mut r, &b) };
            check15_converse(ctx, &m);
        }
    });
}

// ---------------------------------------------------------------- C16

/// rebuild a model tree from parse_triples output
fn tree_from_triples(f: &mut Forest, blob: &[u8], tr: &[ParsedTriple]) -> Option<Vec<Id>> {
    // triples are in pre-order; build ids bottom-up by reverse iteration
    let mut ids: Vec<Option<Id>> = vec![None; tr.len()];
    for i in (0..tr.len()).rev() {
        match &tr[i] {
            ParsedTriple::Atom { start, end, atom_offset } => {
                let s = *start as usize + *atom_offset as usize;
                let e = *end as usize;
                if s > e || e > blob.len() {
                    return None;
                }
                ids[i] = Some(f.atom(&blob[s..e]));
            }
            ParsedTriple::Pair { right_index, .. } => {
                let l = *ids.get(i + 1)?;
                let rr = *ids.get(*right_index as usize)?;
                ids[i] = Some(f.pair(l?, rr?));
            }
        }
    }
    ids.into_iter().collect()
}

/// a reader that hands out at most `step` bytes per call
pub struct ShortReader<'a> {
    pub data: &'a [u8],
    pub pos: usize,
    pub step: usize,
}

impl std::io::Read for ShortReader<'_> {
    fn read(&mut self, buf: &mut [u8]) -> std::io::Result<usize> {
        let n = buf.len().min(self.step).min(self.data.len() - self.pos);
        buf[..n].copy_from_slice(&self.data[self.pos..self.pos + n]);
        self.pos += n;
        Ok(n)
    }
}

fn check16(ctx: &mut Ctx, b: &[u8]) {
    ctx.eval();
    // linear in the input: parse_triples keeps a 24-byte triple and a 32-byte hash per node
    // (Vec growth doubles that), so the allowance is 256 bytes per input byte
    let bound = (2usize << 20) + 256 * b.len();
    // (1) node_from_bytes
    let mut a = Allocator::new();
    let mut cur1 = Cursor::new(b);
    let (r1, peak1, _) = measure(|| guarded(|| node_from_stream(&mut a, &mut cur1)));
    // (2) parse_triples
    let mut cur2 = Cursor::new(b);
    let (r2, peak2, _) = measure(|| guarded(|| parse_triples(&mut cur2, true)));
    // (3) tree_hash_from_stream
    let mut cur3 = Cursor::new(b);
    let (r3, peak3, _) = measure(|| guarded(|| tree_hash_from_stream(&mut cur3)));
    let input = || if b.len() <= 400 { json!(hex::encode(b)) } else { json!({"len": b.len(), "prefix": hex::encode(&b[..200])}) };
    for (name, p) in [("node_from_bytes", peak1), ("parse_triples", peak2), ("tree_hash_from_stream", peak3)] {
        // Allocator::new() itself reserves ~1 MiB; anything beyond 2 MiB + 64*len is over-allocation
        if p > bound {
            ctx.violation("decoder-over-allocates", json!({"decoder": name, "peak_bytes": p, "bound": bound, "input": input()}));
        }
        ctx.max("max_peak_alloc_bytes", p as u64);
    }
    let (Ok(r1), Ok(r2), Ok(r3)) = (r1, r2, r3) else {
        ctx.violation("decoder-panicked", json!({"input": input()}));
        return;
    };
    // (2b) parse_triples without hashes (skips atom bodies instead of reading them) and (2c) the same through a
    // reader that returns a few bytes per call: acceptance, triples and consumed length must not depend on either
    {
        let mut cur = Cursor::new(b);
        let plain = guarded(|| parse_triples(&mut cur, false));
        let mut short = ShortReader { data: b, pos: 0, step: 1 + (b.len() % 3) };
        let sr = guarded(|| parse_triples(&mut short, true));
        let mut short2 = ShortReader { data: b, pos: 0, step: 1 + (b.len() % 5) };
        let sr2 = guarded(|| parse_triples(&mut short2, false));
        let with = &r2;
        match (plain, sr, sr2) {
            (Ok(without), Ok(s1), Ok(s2)) => {
                let same = |x: &clvmr::error::Result<(Vec<ParsedTriple>, Option<Vec<[u8; 32]>>)>, hashes: bool, pos: u64| match (with, x) {
                    (Ok((t0, h0)), Ok((t1, h1))) => t0 == t1 && (if hashes { h0 == h1 } else { h1.is_none() }) && pos == cur2.position(),
                    (Err(_), Err(_)) => true,
                    _ => false,
                };
                if !same(&without, false, cur.position()) {
                    ctx.violation("parse_triples-depends-on-hash-flag", json!({"input": input(), "with_hashes_ok": with.is_ok(), "without_hashes_ok": without.is_ok(),
                        "consumed_with": cur2.position(), "consumed_without": cur.position()}));
                }
                if !same(&s1, true, short.pos as u64) || !same(&s2, false, short2.pos as u64) {
                    ctx.violation("parse_triples-depends-on-read-chunking", json!({"input": input(), "cursor_ok": with.is_ok(), "short_reads_ok": [s1.is_ok(), s2.is_ok()]}));
                }
                ctx.count("parse_triples_flag_and_chunking_compared");
            }
            _ => {
                ctx.violation("decoder-panicked", json!({"input": input(), "decoder": "parse_triples (no hashes / short reads)"}));
                return;
            }
        }
    }
    let oks = (r1.is_ok(), r2.is_ok(), r3.is_ok());
    if oks.0 != oks.1 || oks.0 != oks.2 {
        ctx.violation("decoders-disagree-on-acceptance", json!({"input": input(), "node_from_bytes": oks.0, "parse_triples": oks.1, "tree_hash_from_stream": oks.2}));
        return;
    }
    if !oks.0 {
        ctx.count("rejected_by_all");
        if is_canonical_serialization(b) && !b.contains(&0xfe) {
            ctx.violation("canonical-but-undecodable", json!({"input": input()}));
        }
        return;
    }
    ctx.count("accepted_by_all");
    ctx.nontrivial_bytes(&[b]);
    let n = r1.unwrap();
    let (triples, hashes) = r2.unwrap();
    let h3 = r3.unwrap();
    let (c1, c2, c3) = (cur1.position(), cur2.position(), cur3.position());
    if c1 != c2 || c1 != c3 {
        ctx.violation("decoders-consume-different-lengths", json!({"input": input(), "node_from_bytes": c1, "parse_triples": c2, "tree_hash_from_stream": c3}));
    }
    let model_hash = node_tree_hash(&a, n);
    if h3 != model_hash {
        ctx.violation("tree_hash_from_stream-wrong", json!({"input": input(), "got": hex::encode(h3), "expected": hex::encode(model_hash)}));
    }
    // triple structure describes the same tree, and every per-node hash is right
    let mut f = Forest::new();
    match tree_from_triples(&mut f, b, &triples).filter(|v| !v.is_empty()) {
        Some(ids) => {
            let t = ids[0];
            if !f.eq_node(t, &a, n) {
                ctx.violation("parse_triples-tree-differs", json!({"input": input()}));
            }
            if let Some(hs) = &hashes {
                if hs.len() != triples.len() {
                    ctx.violation("parse_triples-hash-count", json!({"input": input()}));
                } else {
                    // every per-node hash must equal the model hash of that sub-tree
                    let model = f.hashes(t);
                    let bad = (0..ids.len()).find(|i| model.get(&ids[*i]) != Some(&hs[*i]));
                    if let Some(i) = bad {
                        ctx.violation("parse_triples-hashes-wrong", json!({"input": input(), "triple_index": i,
                            "got": hex::encode(hs[i]), "expected": model.get(&ids[i]).map(hex::encode)}));
                    }
                }
            } else {
                ctx.violation("parse_triples-no-hashes", json!({"input": input()}));
            }
            if let Some(ParsedTriple::Atom { end, .. } | ParsedTriple::Pair { end, .. }) = triples.first()
                && *end != c1
            {
                ctx.violation("parse_triples-root-end", json!({"input": input(), "end": end, "consumed": c1}));
            }
        }
        None => ctx.violation("parse_triples-malformed", json!({"input": input()})),
    }
    // canonical verdict
    let canon = is_canonical_serialization(b);
    let reser = node_to_bytes_limit(&a, n, b.len() + 16).ok();
    let expect = c1 as usize == b.len() && reser.as_deref() == Some(b);
    if canon != expect {
        ctx.violation("canonical-verdict-wrong", json!({"input": input(), "is_canonical": canon, "whole_input_and_reserializes": expect}));
    }
    ctx.sample(|| json!({"input": input(), "consumed": c1, "canonical": canon, "tree_hash": hex::encode(h3)}));
}

pub fn run_c16(ctx: &mut Ctx) {
    let miri = ctx.miri;
    // exhaustive: all byte strings up to a length bound
    let maxlen = if miri { 1 } else if ctx.thorough() && !ctx.light { 3 } else { 2 };
    let mut id = 0u64;
    for len in 0..=maxlen {
        let total: u64 = 1 << (8 * len);
        let chunks = 64.min(total);
        for c in 0..chunks {
            let cid = DIRECTED | id;
            id += 1;
            if !ctx.want(cid) {
                continue;
            }
            for v in total * c / chunks..total * (c + 1) / chunks {
                let b: Vec<u8> = (0..len).map(|k| (v >> (8 * (len - 1 - k))) as u8).collect();
                check16(ctx, &b);
            }
            ctx.add("exhaustive_all_bytes", total * (c + 1) / chunks - total * c / chunks);
        }
    }
    // exhaustive over the dense token alphabet
    let dmax = if miri { 2 } else if ctx.light { 4 } else if ctx.thorough() { 7 } else { 6 };
    for len in 3..=dmax {
        let total = (DENSE_ALPHABET.len() as u64).pow(len as u32);
        let chunks = 256.min(total);
        for c in 0..chunks {
            let cid = DIRECTED | id;
            id += 1;
            if !ctx.want(cid) {
                continue;
            }
            for v in total * c / chunks..total * (c + 1) / chunks {
                let b = nth_string(DENSE_ALPHABET, len, v);
                check16(ctx, &b);
            }
            ctx.add("exhaustive_dense_alphabet", total * (c + 1) / chunks - total * c / chunks);
        }
    }
    // atoms at and around every length-prefix boundary, written with every prefix width that can hold the length
    // (minimal and over-long), payload fully present, alone and inside a pair
    {
        let lens: &[usize] = if miri {
            &[0, 1, 0x3f, 0x40]
        } else if ctx.light {
            &[0, 1, 2, 0x3e, 0x3f, 0x40, 0x41, 0x1fff, 0x2000]
        } else {
            &[0, 1, 2, 0x3e, 0x3f, 0x40, 0x41, 0x1ffe, 0x1fff, 0x2000, 0x2001, 0xf_fffe, 0xf_ffff, 0x10_0000, 0x10_0001]
        };
        for (k, len) in lens.iter().enumerate() {
            let cid = DIRECTED | id;
            id += 1;
            if !ctx.want(cid) {
                continue;
            }
            let _ = k;
            for width in 1..=6usize {
                let l = *len as u64;
                let fits = match width {
                    1 => l < 0x40,
                    2 => l < 0x2000,
                    3 => l < 0x10_0000,
                    4 => l < 0x800_0000,
                    5 => l < 0x4_0000_0000,
                    _ => l < 0x200_0000_0000,
                };
                if !fits {
                    continue;
                }
                let marker: [u8; 6] = [0x80, 0xc0, 0xe0, 0xf0, 0xf8, 0xfc];
                let mut prefix: Vec<u8> = (0..width).map(|i| (l >> (8 * (width - 1 - i))) as u8).collect();
                prefix[0] |= marker[width - 1];
                for first in [0x00u8, 0x7f, 0x80, 0xff] {
                    let mut b = prefix.clone();
                    b.extend(std::iter::repeat_n(first, *len));
                    check16(ctx, &b);
                    let mut p = vec![0xffu8];
                    p.extend_from_slice(&b);
                    p.push(0x80);
                    check16(ctx, &p);
                    ctx.count("length_prefix_boundary_atoms");
                }
            }
        }
    }
    let n = ctx.n(400_000, 60_000_000);
    random_cases!(ctx, n, |r, _i| {
        let b = match r.below(10) {
            0 => {
                let n = r.usize(40);
                r.bytes(n)
            }
            1 => {
                // huge declared atom length, little data
                let mut v = vec![*r.pick(&[0xfbu8, 0xf8, 0xf7, 0xef, 0xdf, 0xfc, 0xfd, 0xfe]), r.u8(), r.u8(), r.u8(), r.u8(), r.u8()];
                let extra = r.usize(20);
                v.extend(r.bytes(extra));
                if r.chance(1, 2) {
                    v.insert(0, 0xff);
                }
                v
            }
            2 => {
                // deep nesting
                let d = *r.pick(&[10usize, 100, 1000, 1000, 100_000]);
                let mut v = vec![0xffu8; d];
                if r.chance(1, 2) {
                    v.extend(std::iter::repeat_n(0x80u8, d + 1));
                }
                v
            }
            _ => {
                let mut f = Forest::new();
                let Some(t) = ser_tree(&mut r, &mut f, 20_000) else { continue };
                let b = f.classic_bytes(t);
                if r.chance(1, 4) { b } else { mutate_bytes(&mut r, &b) }
            }
        };
        check16(ctx, &b);
    });
}

// ---------------------------------------------------------------- C17

const SALTS: &[u64] = &[0, u64::MAX, 1, 1 << 63, 0x0123_4567_89ab_cdef, 0x0123_4567_89ab_cdee, 0xffff_ffff_0000_0000, 0x5555_5555_5555_5555];

fn with_salt<T>(salt: Option<u64>, f: impl FnOnce() -> T) -> T {
    clvmr::verif_hooks::set_salt_override(salt);
    let r = f();
    clvmr::verif_hooks::set_salt_override(None);
    r
}

fn check17(ctx: &mut Ctx, r: &mut Rng, f: &Forest, t: Id) {
    let mut a = Allocator::new();
    let mut plan = crate::util::repr_plan(r.u64(), if r.chance(1, 2) { 0 } else { 6 });
    let Ok(n) = f.materialize(&mut a, t, &mut plan) else { return };
    ctx.eval();
    let fail = |ctx: &mut Ctx, sig: &str, d: Value| {
        ctx.violation(sig, json!({"tree": tree_json(f, t), "detail": d}));
    };
    let Ok(Ok(br)) = guarded(|| node_to_bytes_backrefs(&a, n)) else {
        fail(ctx, "backref-serialize-failed", json!({}));
        return;
    };
    let (_, _, classic_len) = f.expanded_stats(t);
    if br.len() as u128 > classic_len {
        fail(ctx, "backref-longer-than-classic", json!({"backref_len": br.len(), "classic_len": classic_len.to_string(), "backref": hex::encode(&br[..br.len().min(300)])}));
    }
    let mut b2 = Allocator::new();
    match node_from_bytes_backrefs(&mut b2, &br) {
        Ok(m) => {
            if !f.eq_node(t, &b2, m) {
                fail(ctx, "backref-round-trip-tree-differs", json!({"backref": hex::encode(&br[..br.len().min(300)])}));
            }
            // re-serialising the decoded tree reproduces the bytes
            match node_to_bytes_backrefs(&b2, m) {
                Ok(again) if again == br => {}
                Ok(again) => fail(ctx, "backref-reserialize-differs", json!({"first": hex::encode(&br[..br.len().min(200)]), "second": hex::encode(&again[..again.len().min(200)])})),
                Err(e) => fail(ctx, "backref-reserialize-failed", json!({"error": e.to_string()})),
            }
        }
        Err(e) => fail(ctx, "backref-round-trip-decode-failed", json!({"error": e.to_string(), "backref": hex::encode(&br[..br.len().min(300)])})),
    }
    if !is_canonical_serialization(&br) {
        fail(ctx, "backref-output-not-canonical", json!({"backref": hex::encode(&br[..br.len().min(300)])}));
    }
    // determinism across hash salts (forced through the hook) and plain repeats
    let nsalts = if ctx.miri { 2 } else { SALTS.len() };
    for s in SALTS.iter().take(nsalts) {
        let again = with_salt(Some(*s), || node_to_bytes_backrefs(&a, n));
        ctx.count("salted_serializations");
        if again.as_ref().ok() != Some(&br) {
            fail(ctx, "backref-output-depends-on-salt", json!({"salt": format!("{s:#x}")}));
            break;
        }
    }
    if (br.len() as u128) < classic_len {
        ctx.nontrivial_bytes(&[&f.tree_hash(t)]);
        ctx.add("bytes_saved_by_backrefs", (classic_len - br.len() as u128) as u64);
        ctx.sample(|| json!({"tree": tree_json(f, t), "backref": hex::encode(&br[..br.len().min(120)]), "backref_len": br.len()}));
    }
}

/// trees that stress the "does a back-reference pay off" threshold: a repeated
/// sub-tree of serialized length 2..8 at stack distances 1..70
fn threshold_tree(r: &mut Rng, f: &mut Forest) -> Id {
    let rep_len = r.range(1, 7) as usize;
    let rep = {
        let b = vec![0x80 | r.u8(); rep_len];
        let a = f.atom(&b);
        if r.chance(1, 3) {
            let x = f.atom(&[r.u8() & 0x7f]);
            f.pair(a, x)
        } else {
            a
        }
    };
    let dist = r.range(0, 70) as usize;
    let mut items = vec![rep];
    for _ in 0..dist {
        let x = f.atom(&[(r.u8() & 0x7f) | 1]);
        items.push(x);
    }
    items.push(rep);
    let tail = if r.chance(1, 2) { f.nil() } else { f.atom(&[0x7f]) };
    let l = f.list_with_tail(&items, tail);
    match r.below(3) {
        0 => l,
        1 => f.pair(l, rep),
        _ => {
            let x = f.atom(&[1]);
            f.pair(x, l)
        }
    }
}

pub fn run_c17(ctx: &mut Ctx) {
    let n = ctx.n(120_000, 20_000_000);
    random_cases!(ctx, n, |r, _i| {
        let mut f = Forest::new();
        let t = if r.chance(1, 3) {
            threshold_tree(&mut r, &mut f)
        } else {
            let Some(t) = ser_tree_spine(&mut r, &mut f, 300_000, 3000) else { continue };
            t
        };
        check17(ctx, &mut r, &f, t);
    });
}

// ---------------------------------------------------------------- C18

fn check18(ctx: &mut Ctx, b: &[u8]) {
    ctx.eval();
    let mut a1 = Allocator::new();
    let mut a2 = Allocator::new();
    let (r1, peak1, _) = measure(|| guarded(|| node_from_bytes_backrefs(&mut a1, b)));
    let r2 = guarded(|| node_from_bytes_backrefs_old(&mut a2, b));
    let r3 = guarded(|| serialized_length_from_bytes(b));
    let input = || if b.len() <= 400 { json!(hex::encode(b)) } else { json!({"len": b.len(), "prefix": hex::encode(&b[..200])}) };
    let _ = peak1;
    let (Ok(r1), Ok(r2), Ok(r3)) = (r1, r2, r3) else {
        ctx.violation("backref-decoder-panicked", json!({"input": input()}));
        return;
    };
    let has_ref = b.contains(&0xfe);
    if r1.is_ok() != r2.is_ok() {
        ctx.violation("backref-decoders-disagree-on-acceptance", json!({"input": input(), "new": r1.is_ok(), "old": r2.is_ok(),
            "new_err": r1.as_ref().err().map(|e| e.to_string()), "old_err": r2.as_ref().err().map(|e| e.to_string())}));
        return;
    }
    if r3.is_ok() != r1.is_ok() {
        ctx.violation("length-probe-disagrees-on-acceptance", json!({"input": input(), "decoder_ok": r1.is_ok(), "probe": format!("{r3:?}")}));
        return;
    }
    let (Ok(n1), Ok(n2), Ok(len)) = (r1, r2, r3) else {
        ctx.count("rejected_by_all");
        if has_ref {
            ctx.count("rejected_inputs_with_backref_token");
        }
        return;
    };
    ctx.count("accepted_by_all");
    if !nodes_equal(&a1, n1, &a2, n2) {
        ctx.violation("backref-decoders-produce-different-trees", json!({"input": input()}));
    }
    if a1.pair_count() != a2.pair_count() {
        ctx.violation("backref-decoders-pair-count-differs", json!({"input": input(), "new": a1.pair_count(), "old": a2.pair_count()}));
    }
    // the probe's length is exactly what the decoder consumed: the prefix of
    // that length decodes to the same tree and no shorter prefix decodes
    let len = len as usize;
    if len > b.len() || len == 0 {
        ctx.violation("length-probe-out-of-range", json!({"input": input(), "probe": len}));
        return;
    }
    let mut a3 = Allocator::new();
    match node_from_bytes_backrefs(&mut a3, &b[..len]) {
        Ok(n3) if nodes_equal(&a1, n1, &a3, n3) => {}
        _ => ctx.violation("length-probe-not-consumed-length", json!({"input": input(), "probe": len, "why": "prefix of that length does not decode to the same tree"})),
    }
    let mut a4 = Allocator::new();
    if node_from_bytes_backrefs(&mut a4, &b[..len - 1]).is_ok() {
        ctx.violation("length-probe-not-consumed-length", json!({"input": input(), "probe": len, "why": "a shorter prefix decodes"}));
    }
    // the non-validating probe must give the same length for every input the decoders accept
    match guarded(|| serialized_length_from_bytes_trusted(b)) {
        Ok(Ok(t)) if t as usize == len => ctx.count("trusted_length_probe_compared"),
        other => ctx.violation("trusted-length-probe-differs", json!({"input": input(), "validating_probe": len, "trusted_probe": format!("{other:?}")})),
    }
    if has_ref {
        ctx.nontrivial_bytes(&[b]);
        ctx.sample(|| json!({"input": input(), "consumed": len, "pair_count": a1.pair_count()}));
    }
}

/// rewrite the path of one back-reference of a valid serialisation
fn mutate_backref(r: &mut Rng, b: &[u8]) -> Vec<u8> {
    let pos: Vec<usize> = b.iter().enumerate().filter(|(_, x)| **x == 0xfe).map(|(i, _)| i).collect();
    let mut v = b.to_vec();
    if pos.is_empty() || r.chance(1, 5) {
        // insert a fresh back-reference somewhere
        let i = r.usize(v.len() + 1);
        let path = gen_path(r);
        let mut ins = vec![0xfe];
        crate::model::ser_atom(&mut ins, &path);
        for (k, x) in ins.iter().enumerate() {
            v.insert(i + k, *x);
        }
        return v;
    }
    let p = *r.pick(&pos);
    // replace the path atom that follows (assume a short one-byte or prefixed atom)
    let path = gen_path(r);
    let mut ins = Vec::new();
    crate::model::ser_atom(&mut ins, &path);
    let old_len = if p + 1 < v.len() {
        let fb = v[p + 1];
        if fb < 0x80 || fb == 0x80 { 1 } else if fb < 0xc0 { 1 + (fb & 0x3f) as usize } else { 2 }
    } else {
        0
    };
    let end = (p + 1 + old_len).min(v.len());
    v.splice(p + 1..end, ins);
    v
}

fn gen_path(r: &mut Rng) -> Vec<u8> {
    match r.below(10) {
        0 => vec![],
        1 => vec![0],
        2 => vec![0, r.u8()],
        3 => vec![0, 0, r.u8() | 1],
        4 => vec![1],
        5 => {
            // long path of ones: walks down the stack past its end
            let n = r.range(1, 12) as usize;
            vec![0xff; n]
        }
        6 => vec![r.u8(), r.u8()],
        7 => {
            let n = r.range(1, 5) as usize;
            r.bytes(n)
        }
        _ => vec![r.u8()],
    }
}

pub fn run_c18(ctx: &mut Ctx) {
    let miri = ctx.miri;
    let mut id = 0u64;
    // exhaustive up to length 6; the release layer of the thorough tier adds an eighth of the 36 M strings of length 7
    // (which eighth depends on the seed), the debug-assertion and sanitizer layers stay at the quick bounds
    let sampled7 = ctx.thorough() && !miri && !ctx.light && !cfg!(debug_assertions);
    let dmax = if miri { 2 } else if ctx.light { 4 } else if sampled7 { 7 } else { 6 };
    for len in 1..=dmax {
        let total = (DENSE_ALPHABET.len() as u64).pow(len as u32);
        let chunks = 256.min(total);
        for c in 0..chunks {
            let cid = DIRECTED | id;
            id += 1;
            if len == 7 && c % 8 != ctx.seed % 8 {
                continue;
            }
            if !ctx.want(cid) {
                continue;
            }
            for v in total * c / chunks..total * (c + 1) / chunks {
                let b = nth_string(DENSE_ALPHABET, len, v);
                check18(ctx, &b);
            }
            ctx.add(if len == 7 { "sampled_dense_alphabet_length_7" } else { "exhaustive_dense_alphabet" }, total * (c + 1) / chunks - total * c / chunks);
        }
    }
    let n = ctx.n(300_000, 40_000_000);
    random_cases!(ctx, n, |r, _i| {
        let mut f = Forest::new();
        let t = if r.chance(1, 3) {
            threshold_tree(&mut r, &mut f)
        } else {
            let Some(t) = ser_tree_spine(&mut r, &mut f, 30_000, 2000) else { continue };
            t
        };
        let mut a = Allocator::new();
        let Ok(nn) = f.materialize_auto(&mut a, t) else { continue };
        let Ok(br) = node_to_bytes_backrefs(&a, nn) else { continue };
        let b = match r.below(6) {
            0 => br,
            1 | 2 | 3 => mutate_backref(&mut r, &br),
            4 => mutate_bytes(&mut r, &br),
            _ => {
                let m = mutate_backref(&mut r, &br);
                mutate_backref(&mut r, &m)
            }
        };
        check18(ctx, &b);
    });
}

// ---------------------------------------------------------------- C29

fn check29(ctx: &mut Ctx, r: &mut Rng, f: &Forest, t: Id) {
    let mut a = Allocator::new();
    let Ok(n) = f.materialize_auto(&mut a, t) else { return };
    let full = f.classic_bytes(t);
    let Ok(full_br) = node_to_bytes_backrefs(&a, n) else { return };
    ctx.eval();
    // token boundaries of the classic serialisation (cons markers, prefixes)
    let mut boundaries: Vec<usize> = Vec::new();
    {
        let mut pos = 0usize;
        let mut stack = vec![t];
        while let Some(id) = stack.pop() {
            boundaries.push(pos);
            match f.get(id) {
                MNode::Atom(b) => {
                    let total = crate::model::ser_atom_len(b.len() as u64, b.first().copied().unwrap_or(0)) as usize;
                    let prefix = total - if b.len() == 1 && b[0] < 0x80 { 1 } else { b.len() };
                    boundaries.push(pos + prefix);
                    pos += total;
                }
                MNode::Pair(l, rr) => {
                    pos += 1;
                    stack.push(*rr);
                    stack.push(*l);
                }
            }
            if boundaries.len() > 4000 {
                break;
            }
        }
    }
    for (which, fullb) in [("classic", &full), ("backrefs", &full_br)] {
        let len = fullb.len();
        let mut limits: Vec<usize> = Vec::new();
        if len <= 300 {
            limits.extend(0..=len + 1);
        } else {
            limits.extend([0, 1, 2, len - 1, len, len + 1]);
            for b in boundaries.iter().take(60) {
                for d in [0usize, 1] {
                    if *b + d <= len {
                        limits.push(*b + d);
                    }
                }
                if *b > 0 {
                    limits.push(*b - 1);
                }
            }
            for _ in 0..40 {
                limits.push(r.usize(len + 2));
            }
        }
        for l in limits {
            let res = if which == "classic" { node_to_bytes_limit(&a, n, l) } else { node_to_bytes_backrefs_limit(&a, n, l) };
            ctx.count("limit_probes");
            let expect_ok = len <= l;
            match (&res, expect_ok) {
                (Ok(b), true) if b == fullb => {}
                (Err(EvalErr::OutOfMemory), false) => {
                    if boundaries.contains(&l) || boundaries.contains(&(l + 1)) {
                        ctx.count("limit_on_token_boundary");
                    }
                }
                _ => {
                    let on_boundary = which == "classic" && boundaries.contains(&l);
                    let sig = match &res {
                        Ok(_) if !expect_ok => "succeeds-beyond-limit",
                        Ok(_) => "limited-output-differs",
                        Err(EvalErr::OutOfMemory) => "fails-although-it-fits",
                        Err(_) => "wrong-error-at-limit",
                    };
                    ctx.violation(sig, json!({"serializer": which, "tree": tree_json(f, t), "full_len": len, "limit": l,
                        "result": match &res { Ok(b) => format!("Ok({} bytes)", b.len()), Err(e) => format!("Err({e})") },
                        "limit_on_classic_token_boundary": on_boundary}));
                    return;
                }
            }
        }
    }
    ctx.nontrivial_bytes(&[&f.tree_hash(t)]);
    ctx.sample(|| json!({"tree": tree_json(f, t), "classic_len": full.len(), "backref_len": full_br.len()}));
}

pub fn run_c29(ctx: &mut Ctx) {
    let n = ctx.n(40_000, 5_000_000);
    random_cases!(ctx, n, |r, _i| {
        let mut f = Forest::new();
        let t = match r.below(4) {
            0 => threshold_tree(&mut r, &mut f),
            1 => {
                // atoms at prefix boundaries
                let len = *r.pick(&[0usize, 1, 0x3f, 0x40, 100, 0x1fff, 0x2000]);
                let b = gen_atom(&mut r, 10);
                let x = f.atom(&vec![0x99; len]);
                let y = f.atom(&b);
                let p = f.pair(x, y);
                f.pair(p, x)
            }
            _ => {
                let Some(t) = ser_tree_spine(&mut r, &mut f, 100_000, 2000) else { continue };
                t
            }
        };
        check29(ctx, &mut r, &f, t);
    });
}

#[allow(dead_code)]
fn unused(_: NodePtr) {}
