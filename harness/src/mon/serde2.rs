//! C19 incremental serializer histories, C20 serde_2026, C21 varints,
//! C22 tree-hash implementations, C23 native sha256tree cheaper than ChiaLisp,
//! C24 interning.

use crate::genr::{gen_atom, gen_tree, mutate_bytes, Shape, SHAPES};
use crate::meter::measure;
use crate::model::{node_tree_hash, Forest, Id, MNode, Repr};
use crate::outcome::{guarded, run_chia, Res};
use crate::random_cases;
use crate::report::{Ctx, DIRECTED};
use crate::rng::Rng;
use clvmr::allocator::{Allocator, NodePtr};
use clvmr::chia_dialect::ClvmFlags;
use clvmr::serde::{
    intern_tree, node_from_bytes, node_from_bytes_backrefs, node_from_bytes_backrefs_old, node_to_bytes_backrefs, node_to_bytes_limit,
    parse_triples, serialized_length_from_bytes, tree_hash_from_stream, treehash, ObjectCache, Serializer, UndoState,
};
use clvmr::serde_2026::{
    deserialize_2026, deserialize_2026_body_from_stream, deserialize_2026_from_stream, read_varint, serialize_2026,
    serialized_length_serde_2026, write_varint, SERDE_2026_MAGIC_PREFIX,
};
use serde_json::{json, Value};
use std::io::Cursor;

fn small_tree(r: &mut Rng, f: &mut Forest, max_nodes: usize, max_atom: usize) -> Id {
    let sh = *r.pick(SHAPES);
    let size = match sh {
        Shape::Doubling => r.usize(10) + 1,
        Shape::LeftSpine | Shape::RightSpine => r.usize(max_nodes.min(200)) + 1,
        _ => r.usize(max_nodes) + 1,
    };
    gen_tree(r, f, sh, size, max_atom)
}

fn tree_json(f: &Forest, t: Id) -> Value {
    let (pairs, atoms, len) = f.expanded_stats(t);
    if len <= 1500 {
        json!({"classic": hex::encode(f.classic_bytes(t)), "pairs": pairs.to_string(), "atoms": atoms.to_string()})
    } else {
        json!({"tree_hash": hex::encode(f.tree_hash(t)), "serialized_len": len.to_string(), "pairs": pairs.to_string(), "atoms": atoms.to_string()})
    }
}

// ---------------------------------------------------------------- C21

/// independent model: minimal encoded length of a 56-bit signed value
fn v_len(v: i64) -> usize {
    for l in 0..8usize {
        let bits = 7 + 7 * l as u32;
        let lo = -(1i128 << (bits - 1));
        let hi = (1i128 << (bits - 1)) - 1;
        if (v as i128) >= lo && (v as i128) <= hi {
            return l + 1;
        }
    }
    9
}

fn v_encode(v: i64, len: usize) -> Vec<u8> {
    // two's complement payload of 7*len bits behind (len-1) one bits and a zero bit
    let l = len - 1;
    let bits = 7 * len as u32;
    let payload: u128 = ((v as i128) & ((1i128 << bits) - 1)) as u128;
    let prefix: u128 = if l == 0 { 0 } else { ((1u128 << l) - 1) << (8 * len as u32 - l as u32) };
    let word = prefix | payload;
    (0..len).rev().map(|i| (word >> (8 * i)) as u8).collect()
}

/// decode per the format: Ok((value, consumed)) or Err
fn v_decode(b: &[u8]) -> Option<(i64, usize)> {
    let first = *b.first()?;
    let l = first.leading_ones() as usize;
    if l >= 8 || b.len() < l + 1 {
        return None;
    }
    let len = l + 1;
    let mut word: u128 = 0;
    for x in &b[..len] {
        word = (word << 8) | *x as u128;
    }
    let bits = 7 * len as u32;
    let payload = word & ((1u128 << bits) - 1);
    let v = if payload >> (bits - 1) != 0 { payload as i128 - (1i128 << bits) } else { payload as i128 };
    Some((v as i64, len))
}

fn check_varint_bytes(ctx: &mut Ctx, b: &[u8]) {
    ctx.eval();
    let model = v_decode(b);
    for strict in [false, true] {
        let mut c = Cursor::new(b);
        let r = guarded(|| read_varint(&mut c, strict));
        let Ok(r) = r else {
            ctx.violation("read_varint-panicked", json!({"bytes": hex::encode(b), "strict": strict}));
            return;
        };
        let expect = match model {
            Some((v, len)) if !strict || v_len(v) == len => Some((v, len)),
            _ => None,
        };
        // the same bytes through a reader that returns one byte per call: value, verdict and consumed length
        // must not depend on how the reader chunks its data
        if b.len() > 1 {
            let mut sr = crate::mon::serde1::ShortReader { data: b, pos: 0, step: 1 };
            let r1 = guarded(|| read_varint(&mut sr, strict));
            let same = match (&r, &r1) {
                (Ok(x), Ok(Ok(y))) => x == y && sr.pos as u64 == c.position(),
                (Err(_), Ok(Err(_))) => true,
                _ => false,
            };
            if !same {
                ctx.violation("varint-decode-depends-on-read-chunking", json!({"bytes": hex::encode(b), "strict": strict, "cursor": format!("{r:?}"), "one_byte_reads": format!("{r1:?}")}));
                return;
            }
            ctx.count("varint_short_read_comparisons");
        }
        match (&r, expect) {
            (Ok(v), Some((mv, len))) if *v == mv && c.position() as usize == len => {}
            (Err(_), None) => {}
            _ => {
                ctx.violation(
                    if strict { "strict-varint-decode-wrong" } else { "lenient-varint-decode-wrong" },
                    json!({"bytes": hex::encode(b), "strict": strict, "got": format!("{r:?}"), "consumed": c.position(),
                           "model": format!("{model:?}"), "expected": format!("{expect:?}")}),
                );
                return;
            }
        }
    }
}

fn check_varint_value(ctx: &mut Ctx, v: i64) {
    ctx.eval();
    let mut out = Vec::new();
    let r = guarded(|| write_varint(&mut out, v));
    if !matches!(r, Ok(Ok(()))) {
        ctx.violation("write_varint-failed", json!({"value": v}));
        return;
    }
    let expect = v_encode(v, v_len(v));
    if out != expect {
        ctx.violation("varint-not-shortest-or-wrong", json!({"value": v, "got": hex::encode(&out), "expected": hex::encode(&expect)}));
        return;
    }
    for strict in [false, true] {
        let mut tail = out.clone();
        tail.extend_from_slice(&[0xaa, 0x55]);
        let mut c = Cursor::new(tail.as_slice());
        match read_varint(&mut c, strict) {
            Ok(x) if x == v && c.position() as usize == out.len() => {}
            other => {
                ctx.violation("varint-round-trip", json!({"value": v, "bytes": hex::encode(&out), "strict": strict, "got": format!("{other:?}")}));
                return;
            }
        }
    }
    // every longer encoding of the same value: lenient accepts, strict rejects
    for len in v_len(v) + 1..=8 {
        let e = v_encode(v, len);
        let mut c = Cursor::new(e.as_slice());
        if !matches!(read_varint(&mut c, false), Ok(x) if x == v) {
            ctx.violation("lenient-varint-decode-wrong", json!({"value": v, "overlong": hex::encode(&e)}));
        }
        let mut c = Cursor::new(e.as_slice());
        if read_varint(&mut c, true).is_ok() {
            ctx.violation("strict-accepts-overlong", json!({"value": v, "overlong": hex::encode(&e)}));
        }
        ctx.count("overlong_encodings_checked");
    }
    // truncations fail
    for k in 0..out.len() {
        let mut c = Cursor::new(&out[..k]);
        if read_varint(&mut c, false).is_ok() {
            ctx.violation("truncated-varint-accepted", json!({"value": v, "bytes": hex::encode(&out[..k])}));
        }
    }
}

pub fn run_c21(ctx: &mut Ctx) {
    let miri = ctx.miri;
    // exhaustive over all encodings with a declared length of up to 3 (quick) / 4 (thorough) bytes
    let maxlen = if miri { 1 } else if ctx.thorough() { 4 } else { 3 };
    let mut id = 0u64;
    for len in 1..=maxlen {
        let total: u64 = 1 << (7 * len);
        let chunks = 256.min(total);
        for c in 0..chunks {
            let cid = DIRECTED | id;
            id += 1;
            // the 268 M four-byte encodings are sampled: one sixteenth of the chunks, chosen by the seed
            let sampled = len == 4;
            if sampled && c % 16 != ctx.seed % 16 {
                continue;
            }
            if !ctx.want(cid) {
                continue;
            }
            for p in total * c / chunks..total * (c + 1) / chunks {
                // payload p in 7*len bits behind the length prefix
                let l = len - 1;
                let prefix: u64 = if l == 0 { 0 } else { ((1u64 << l) - 1) << (8 * len - l) };
                let word = prefix | p;
                let mut b: Vec<u8> = (0..len).rev().map(|i| (word >> (8 * i)) as u8).collect();
                b.push(0x7e); // a trailing byte that must not be consumed
                check_varint_bytes(ctx, &b);
            }
            ctx.add(if sampled { "sampled_four_byte_encodings" } else { "exhaustive_encodings" }, total * (c + 1) / chunks - total * c / chunks);
            ctx.nontrivial_enumerated(total * (c + 1) / chunks - total * c / chunks);
        }
    }
    // invalid / truncated first bytes
    {
        let cid = DIRECTED | id;
        id += 1;
        if ctx.want(cid) {
            check_varint_bytes(ctx, &[0xff]);
            check_varint_bytes(ctx, &[0xff, 0, 0, 0, 0, 0, 0, 0, 0]);
            check_varint_bytes(ctx, &[]);
            for l in 1..8usize {
                let first = (((1u16 << l) - 1) << (8 - l)) as u8;
                for have in 0..l {
                    let mut b = vec![first];
                    b.extend(std::iter::repeat_n(0x11, have));
                    check_varint_bytes(ctx, &b);
                    ctx.count("truncated_inputs");
                }
            }
        }
    }
    // encoder: exhaustive small magnitudes, all width boundaries, random 56-bit values
    let span: i64 = if miri { 300 } else if ctx.thorough() { 1 << 23 } else { 1 << 20 };
    for c in 0..64i64 {
        let cid = DIRECTED | id;
        id += 1;
        if !ctx.want(cid) {
            continue;
        }
        let (lo, hi) = (-span + 2 * span * c / 64, -span + 2 * span * (c + 1) / 64);
        for v in lo..hi {
            check_varint_value(ctx, v);
        }
        ctx.add("exhaustive_values", (hi - lo) as u64);
    }
    {
        let cid = DIRECTED | id;
        if ctx.want(cid) {
            for k in 1..=8u32 {
                let p = 1i64 << (7 * k - 1);
                for d in -2i64..=2 {
                    for v in [p + d, -p + d] {
                        if v >= -(1 << 55) && v < (1 << 55) {
                            check_varint_value(ctx, v);
                            ctx.count("width_boundary_values");
                        }
                    }
                }
            }
        }
    }
    let n = ctx.n(1_000_000, 40_000_000);
    random_cases!(ctx, n, |r, _i| {
        let bits = r.range(1, 56) as u32;
        let mag = (r.u64() >> (64 - bits)) as i64;
        let v = if r.chance(1, 2) { -mag - 1 } else { mag };
        let v = v.clamp(-(1 << 55), (1 << 55) - 1);
        check_varint_value(ctx, v);
        // and random byte strings
        let nb = r.range(1, 9) as usize;
        let b = r.bytes(nb);
        check_varint_bytes(ctx, &b);
        ctx.nontrivial(r.u64());
    });
}

// ---------------------------------------------------------------- C20

fn max_atom_len_of(f: &Forest, t: Id) -> usize {
    f.reachable(t).iter().filter_map(|i| f.atom_bytes(*i).map(|b| b.len())).max().unwrap_or(0)
}

fn cross_decoders_reject(ctx: &mut Ctx, blob: &[u8], what: &str) {
    let mut a = Allocator::new();
    let accepted: Vec<&str> = [
        ("node_from_bytes", node_from_bytes(&mut a, blob).is_ok()),
        ("node_from_bytes_backrefs", node_from_bytes_backrefs(&mut a, blob).is_ok()),
        ("node_from_bytes_backrefs_old", node_from_bytes_backrefs_old(&mut a, blob).is_ok()),
        ("serialized_length_from_bytes", serialized_length_from_bytes(blob).is_ok()),
        ("tree_hash_from_stream", tree_hash_from_stream(&mut Cursor::new(blob)).is_ok()),
        ("parse_triples", parse_triples(&mut Cursor::new(blob), false).is_ok()),
        ("serialized_length_from_bytes_trusted", clvmr::serde::serialized_length_from_bytes_trusted(blob).is_ok()),
    ]
    .iter()
    .filter(|(_, ok)| *ok)
    .map(|(n, _)| *n)
    .collect();
    ctx.count("cross_decoder_probes");
    if !accepted.is_empty() {
        ctx.violation("legacy-decoder-accepts-2026-blob", json!({"decoders": accepted, "what": what, "blob": hex::encode(&blob[..blob.len().min(200)])}));
    }
}

fn check20_roundtrip(ctx: &mut Ctx, r: &mut Rng, f: &Forest, t: Id) {
    let mut a = Allocator::new();
    let mut plan = crate::util::repr_plan(r.u64(), if r.chance(1, 2) { 0 } else { 6 });
    let Ok(n) = f.materialize(&mut a, t, &mut plan) else { return };
    ctx.eval();
    let level = *r.pick(&[0u32, 0, 1, 7, u32::MAX]);
    let fail = |ctx: &mut Ctx, sig: &str, d: Value| {
        ctx.violation(sig, json!({"tree": tree_json(f, t), "level": level, "detail": d}));
    };
    let Ok(Ok(blob)) = guarded(|| serialize_2026(&a, n, level)) else {
        fail(ctx, "serialize_2026-failed", json!({}));
        return;
    };
    if !blob.starts_with(&SERDE_2026_MAGIC_PREFIX) {
        fail(ctx, "missing-magic-prefix", json!({}));
    }
    let maxlen = max_atom_len_of(f, t);
    for strict in [true, false] {
        let mut b = Allocator::new();
        match deserialize_2026(&mut b, &blob, maxlen.max(1), strict) {
            Ok(m) => {
                if !f.eq_node(t, &b, m) {
                    fail(ctx, "serde2026-round-trip-tree-differs", json!({"strict": strict, "blob": hex::encode(&blob[..blob.len().min(300)])}));
                }
            }
            Err(e) => fail(ctx, "serde2026-round-trip-decode-failed", json!({"strict": strict, "error": e.to_string(), "blob": hex::encode(&blob[..blob.len().min(300)])})),
        }
        let mut with_tail = blob.clone();
        with_tail.extend_from_slice(&[0x01, 0xff, 0x00]);
        for (name, buf) in [("exact", &blob), ("trailing-bytes", &with_tail)] {
            match serialized_length_serde_2026(buf, maxlen.max(1), strict) {
                Ok(l) if l as usize == blob.len() => {}
                other => fail(ctx, "serde2026-length-probe-wrong", json!({"strict": strict, "input": name, "got": format!("{other:?}"), "expected": blob.len()})),
            }
        }
    }
    // max_atom_len: decoding succeeds iff the largest atom fits
    if maxlen > 0 {
        for (m, ok) in [(maxlen, true), (maxlen - 1, false), (0, false), (1 << 20, true), (1 << 28, true)] {
            if m >= maxlen && !ok {
                continue;
            }
            let mut b = Allocator::new();
            let got = deserialize_2026(&mut b, &blob, m, true).is_ok();
            let exp = maxlen <= m;
            if got != exp {
                fail(ctx, "max_atom_len-not-respected", json!({"max_atom_len": m, "largest_atom": maxlen, "decoded": got}));
            }
            ctx.count("max_atom_len_probes");
        }
    }
    cross_decoders_reject(ctx, &blob, "serialize_2026 output");
    let (_, _, classic_len) = f.expanded_stats(t);
    let (da, dp) = f.distinct_census(t);
    if (da + dp) as u128 * 2 < f.expanded_stats(t).0 + f.expanded_stats(t).1 {
        // real sharing in the tree
        ctx.nontrivial_bytes(&[&f.tree_hash(t), &level.to_le_bytes()]);
        ctx.sample(|| json!({"tree": tree_json(f, t), "level": level, "blob_len": blob.len(), "classic_len": classic_len.to_string(), "blob": hex::encode(&blob[..blob.len().min(80)])}));
    }
}

fn check20_robust(ctx: &mut Ctx, r: &mut Rng, blob: &[u8]) {
    ctx.eval();
    let max_atom_len = *r.pick(&[0usize, 1, 32, 1 << 10, 1 << 20, 1 << 24]);
    let strict = r.chance(1, 2);
    let bound = (2usize << 20) + 256 * blob.len() + 2 * max_atom_len;
    let input = || json!({"blob": hex::encode(&blob[..blob.len().min(300)]), "len": blob.len(), "max_atom_len": max_atom_len, "strict": strict});
    let mut a = Allocator::new();
    let mut cur = Cursor::new(blob);
    let (r1, peak, _) = measure(|| guarded(|| deserialize_2026_from_stream(&mut a, &mut cur, max_atom_len, strict)));
    let (r2, peak2, _) = measure(|| guarded(|| serialized_length_serde_2026(blob, max_atom_len, strict)));
    ctx.max("max_peak_alloc_bytes", peak.max(peak2) as u64);
    if peak > bound || peak2 > bound {
        ctx.violation("serde2026-over-allocates", json!({"input": input(), "peak_decode": peak, "peak_probe": peak2, "bound": bound}));
    }
    let (Ok(r1), Ok(r2)) = (r1, r2) else {
        ctx.violation("serde2026-decoder-panicked", json!({"input": input()}));
        return;
    };
    // the same blob through a reader that returns a few bytes per call: same verdict, same tree, same length
    {
        let mut a2 = Allocator::new();
        let mut sr = crate::mon::serde1::ShortReader { data: blob, pos: 0, step: 1 + blob.len() % 3 };
        match guarded(|| deserialize_2026_from_stream(&mut a2, &mut sr, max_atom_len, strict)) {
            Ok(r1s) => {
                let same = match (&r1, &r1s) {
                    (Ok(n1), Ok(n2)) => crate::model::nodes_equal(&a, *n1, &a2, *n2) && sr.pos as u64 == cur.position(),
                    (Err(_), Err(_)) => true,
                    _ => false,
                };
                if !same {
                    ctx.violation("serde2026-decode-depends-on-read-chunking", json!({"input": input(), "cursor_ok": r1.is_ok(), "short_reads_ok": r1s.is_ok(),
                        "consumed_cursor": cur.position(), "consumed_short_reads": sr.pos}));
                }
                ctx.count("serde2026_short_read_comparisons");
            }
            Err(_) => ctx.violation("serde2026-decoder-panicked", json!({"input": input(), "entry": "short reads"})),
        }
    }
    // body-only entry point on the same bytes minus prefix
    if blob.len() >= 6 {
        let mut b = Allocator::new();
        let mut c2 = Cursor::new(&blob[6..]);
        if guarded(|| deserialize_2026_body_from_stream(&mut b, &mut c2, max_atom_len, strict)).is_err() {
            ctx.violation("serde2026-decoder-panicked", json!({"input": input(), "entry": "body"}));
        }
    }
    match (&r1, &r2) {
        (Ok(_), Ok(l)) => {
            ctx.count("mutated_blob_accepted");
            if *l != cur.position() {
                ctx.violation("serde2026-probe-differs-from-consumed", json!({"input": input(), "probe": l, "consumed": cur.position()}));
            }
            ctx.nontrivial_bytes(&[blob]);
        }
        (Ok(_), Err(e)) => {
            ctx.violation("serde2026-probe-rejects-decodable", json!({"input": input(), "probe_error": e.to_string(), "consumed": cur.position()}));
        }
        (Err(_), Ok(_)) => {
            // the probe validates framing only; a decode failure with an Ok probe is allowed
            // (dangling indices, stack discipline) -- counted, not alarmed
            ctx.count("probe_ok_decode_err");
        }
        (Err(_), Err(_)) => ctx.count("mutated_blob_rejected"),
    }
    if blob.starts_with(&SERDE_2026_MAGIC_PREFIX) {
        cross_decoders_reject(ctx, blob, "magic prefix + arbitrary bytes");
    }
}

pub fn run_c20(ctx: &mut Ctx) {
    let n = ctx.n(150_000, 20_000_000);
    random_cases!(ctx, n, |r, _i| {
        let mut f = Forest::new();
        let t = match r.below(8) {
            0 => {
                // many distinct atoms of one boundary length (group headers -63/-64/-65, ...)
                let len = *r.pick(&[1usize, 2, 63, 64, 65, 64, 100]);
                let k = r.range(1, 5) as usize;
                let items: Vec<Id> = (0..k).map(|i| {
                    let mut b = vec![0x80u8 + i as u8; len];
                    b[0] = 0x80 | r.u8();
                    f.atom(&b)
                }).collect();
                f.list(&items)
            }
            1 => {
                // many pairs with a shared sub-tree referenced late (pair back-reference indices around 62..66)
                let k = r.range(55, 75) as usize;
                let x = f.atom(&[0x11, 0x22]);
                let y = f.atom(&[0x33]);
                let shared = f.pair(x, y);
                let mut items = vec![shared];
                for i in 0..k {
                    let a = f.atom(&[(i as u8) | 0x80, 1]);
                    let p = f.pair(a, x);
                    items.push(p);
                }
                let pos = r.usize(items.len());
                items.insert(pos, shared);
                items.push(shared);
                f.list(&items)
            }
            _ => {
                let ma = if r.chance(1, 20) { 3000 } else { 70 };
                small_tree(&mut r, &mut f, 150, ma)
            }
        };
        let (_, _, len) = f.expanded_stats(t);
        if len > 500_000 {
            continue;
        }
        check20_roundtrip(ctx, &mut r, &f, t);
    });
    let n2 = ctx.n(200_000, 30_000_000);
    random_cases!(ctx, n2, |r, _i| {
        let blob = match r.below(8) {
            0 => {
                let mut b = SERDE_2026_MAGIC_PREFIX.to_vec();
                let k = r.usize(30);
                b.extend(r.bytes(k));
                b
            }
            1 => {
                let k = r.usize(40);
                r.bytes(k)
            }
            2 => {
                // huge counts: group count / instruction count / atom count = 2^54
                let mut b = SERDE_2026_MAGIC_PREFIX.to_vec();
                let huge = [0xfeu8, 0x40, 0, 0, 0, 0, 0, 0];
                match r.below(3) {
                    0 => b.extend_from_slice(&huge),
                    1 => {
                        b.push(1);
                        b.extend_from_slice(&[0x7f]); // negative length => (length,count) group
                        b.extend_from_slice(&huge);
                    }
                    _ => {
                        b.push(0);
                        b.extend_from_slice(&huge);
                    }
                }
                let k = r.usize(10);
                b.extend(r.bytes(k));
                b
            }
            _ => {
                let mut f = Forest::new();
                let t = small_tree(&mut r, &mut f, 60, 40);
                let (_, _, len) = f.expanded_stats(t);
                if len > 50_000 {
                    continue;
                }
                let mut a = Allocator::new();
                let Ok(n) = f.materialize_auto(&mut a, t) else { continue };
                let Ok(blob) = serialize_2026(&a, n, 0) else { continue };
                if r.chance(1, 8) {
                    blob
                } else {
                    // mutate behind the prefix most of the time
                    let m = mutate_bytes(&mut r, &blob[6..]);
                    let mut b = if r.chance(9, 10) { SERDE_2026_MAGIC_PREFIX.to_vec() } else { blob[..6].iter().map(|x| x ^ (r.u8() & 1)).collect() };
                    b.extend(m);
                    b
                }
            }
        };
        check20_robust(ctx, &mut r, &blob);
    });
}

// ---------------------------------------------------------------- C22

const SHATREE_PROG: &str = "ff02ffff01ff02ff02ffff04ff02ffff04ff03ff80808080ffff04ffff01ff02ffff03ffff07ff0580ffff01ff0bffff0102ffff02ff02ffff04ff02ffff04ff09ff80808080ffff02ff02ffff04ff02ffff04ff0dff8080808080ffff01ff0bffff0101ff058080ff0180ff018080";

fn check22(ctx: &mut Ctx, r: &mut Rng, f: &Forest, t: Id) {
    let model = f.tree_hash(t);
    let mut a = Allocator::new();
    let vary = *r.pick(&[0u64, 16, 8]);
    let mut plan = crate::util::repr_plan(r.u64(), vary);
    let Ok(n) = f.materialize(&mut a, t, &mut plan) else { return };
    ctx.eval();
    let fail = |ctx: &mut Ctx, which: &str, got: Option<[u8; 32]>| {
        ctx.violation("tree-hash-implementation-disagrees", json!({"implementation": which, "tree": tree_json(f, t), "got": got.map(hex::encode), "expected": hex::encode(model), "atom_representation_variation": vary}));
    };
    let atom_of = |a: &Allocator, r: &clvmr::reduction::Response| -> Option<[u8; 32]> {
        match r {
            Ok(clvmr::reduction::Reduction(_, node)) => a.atom(*node).as_ref().try_into().ok(),
            Err(_) => None,
        }
    };
    let (_, _, explen) = f.expanded_stats(t);
    let flags = if r.chance(1, 2) { ClvmFlags::ENABLE_SHA256_TREE } else { ClvmFlags::ENABLE_SHA256_TREE | ClvmFlags::NEW_COST_MODEL };
    // 1. tree_hash_costed
    let r1 = clvmr::treehash::tree_hash_costed(&mut a, n, 300_000_000, flags);
    if atom_of(&a, &r1) != Some(model) {
        fail(ctx, "tree_hash_costed", atom_of(&a, &r1));
    }
    // 2. the operator, called directly
    let args = a.new_pair(n, NodePtr::NIL).unwrap();
    let r2 = clvmr::sha_tree_op::op_sha256_tree(&mut a, args, 300_000_000, flags);
    if atom_of(&a, &r2) != Some(model) {
        fail(ctx, "op_sha256_tree", atom_of(&a, &r2));
    }
    // 3. through run_program: (sha256tree 1) with the tree as environment
    let prog = {
        let op = a.new_small_number(63).unwrap();
        let one = a.one();
        let l = a.new_pair(one, NodePtr::NIL).unwrap();
        a.new_pair(op, l).unwrap()
    };
    let o = run_chia(&mut a, flags, prog, n, 400_000_000);
    match &o.res {
        Res::Ok { .. } => {
            let got: Option<[u8; 32]> = o.node.and_then(|x| a.atom(x).as_ref().try_into().ok());
            if got != Some(model) {
                fail(ctx, "run_program (sha256tree 1)", got);
            }
        }
        other => fail(ctx, &format!("run_program (sha256tree 1): {}", other.variant()), None),
    }
    // 4. ObjectCache treehash
    let mut thc = ObjectCache::new(treehash);
    let got = thc.get_or_calculate(&a, &n, None).copied();
    if got != Some(model) {
        fail(ctx, "ObjectCache treehash", got);
    }
    // 5. InternedTree::tree_hash
    match intern_tree(&a, n) {
        Ok(it) => {
            if it.tree_hash() != model {
                fail(ctx, "InternedTree::tree_hash", Some(it.tree_hash()));
            }
        }
        Err(_) => fail(ctx, "intern_tree failed", None),
    }
    // 6./7. stream based implementations on the classic serialisation
    if explen <= 2_000_000 {
        let bytes = f.classic_bytes(t);
        let got = tree_hash_from_stream(&mut Cursor::new(bytes.as_slice())).ok();
        if got != Some(model) {
            fail(ctx, "tree_hash_from_stream", got);
        }
        match parse_triples(&mut Cursor::new(bytes.as_slice()), true) {
            Ok((_, Some(hs))) if hs.first() == Some(&model) => {
                ctx.add("parse_triples_node_hashes", hs.len() as u64);
            }
            Ok((_, hs)) => fail(ctx, "parse_triples root hash", hs.and_then(|h| h.first().copied())),
            Err(_) => fail(ctx, "parse_triples failed", None),
        }
        // 8. the ChiaLisp implementation run by the interpreter
        if explen <= 20_000 {
            let pb = hex::decode(SHATREE_PROG).unwrap();
            let p = node_from_bytes(&mut a, &pb).unwrap();
            let o = run_chia(&mut a, ClvmFlags::empty(), p, n, 0);
            let got: Option<[u8; 32]> = o.node.and_then(|x| a.atom(x).as_ref().try_into().ok());
            if o.res.is_ok() && got != Some(model) {
                fail(ctx, "ChiaLisp sha256tree program", got);
            }
        }
    }
    let (da, dp) = f.distinct_census(t);
    let (p, at, _) = f.expanded_stats(t);
    let has_small = f.reachable(t).iter().any(|i| f.atom_bytes(*i).is_some_and(|b| b.len() <= 1));
    if ((da + dp) as u128) < p + at || has_small {
        ctx.nontrivial_bytes(&[&model, &vary.to_le_bytes()]);
        ctx.sample(|| json!({"tree": tree_json(f, t), "tree_hash": hex::encode(model), "implementations_checked": 8}));
    }
}

pub fn run_c22(ctx: &mut Ctx) {
    // directed: every small integer 0..300 and the one-byte non-canonical forms, alone and in pairs
    let mut id = 0u64;
    for v in 0..=300u32 {
        let cid = DIRECTED | id;
        id += 1;
        if !ctx.want(cid) {
            continue;
        }
        let mut r = ctx.rng(cid);
        for enc in 0..3 {
            let mut f = Forest::new();
            let b = match enc {
                0 => crate::model::encode_int(v as i128),
                1 => {
                    let mut b = crate::model::encode_int(v as i128);
                    b.insert(0, 0);
                    b
                }
                _ => vec![v as u8],
            };
            let x = f.atom(&b);
            check22(ctx, &mut r, &f, x);
            let nil = f.nil();
            let p = f.pair(x, nil);
            let pp = f.pair(p, p);
            check22(ctx, &mut r, &f, pp);
        }
        ctx.count("small_int_cases");
    }
    // directed: long atoms around the block sizes hashing code is likely to use (64-byte SHA blocks, 512 / 1024 / 4096 /
    // 8192 / 65536-byte I/O chunks), alone and inside a small tree
    {
        let lens: &[usize] = if ctx.miri { &[63, 65] } else if ctx.light { &[63, 64, 65, 1025, 8193] } else {
            &[55, 56, 63, 64, 65, 119, 511, 512, 513, 1023, 1024, 1025, 4095, 4096, 4097, 8191, 8192, 8193, 9000, 16383, 16384, 16385, 65535, 65536, 65537, 100_000, 1_048_577]
        };
        for (k, len) in lens.iter().enumerate() {
            let cid = DIRECTED | id;
            id += 1;
            if !ctx.want(cid) {
                continue;
            }
            let mut r = ctx.rng(cid);
            let mut f = Forest::new();
            let body: Vec<u8> = (0..*len).map(|i| (i * 31 + k) as u8).collect();
            let x = f.atom(&body);
            check22(ctx, &mut r, &f, x);
            let five = f.atom(&[5]);
            let p = f.pair(five, x);
            let t = f.pair(p, x);
            check22(ctx, &mut r, &f, t);
            ctx.count("long_atom_cases");
        }
    }
    let n = ctx.n(600_000, 20_000_000);
    random_cases!(ctx, n, |r, _i| {
        let mut f = Forest::new();
        let ma = if r.chance(1, 30) { 5000 } else if r.chance(1, 200) { 70_000 } else { 60 };
        let t = small_tree(&mut r, &mut f, 200, ma);
        let (pairs, atoms, _) = f.expanded_stats(t);
        if pairs + atoms > 200_000 {
            continue;
        }
        check22(ctx, &mut r, &f, t);
    });
}

// ---------------------------------------------------------------- C23

fn check23(ctx: &mut Ctx, f: &Forest, t: Id, shape: &str) {
    let pb = hex::decode(SHATREE_PROG).unwrap();
    for model_flags in [ClvmFlags::empty(), ClvmFlags::NEW_COST_MODEL] {
        for extra in [ClvmFlags::empty(), ClvmFlags::ENABLE_GC] {
            let flags = ClvmFlags::ENABLE_SHA256_TREE | model_flags | extra;
            let mut a = Allocator::new();
            let Ok(n) = f.materialize_auto(&mut a, t) else { return };
            let p = node_from_bytes(&mut a, &pb).unwrap();
            // (sha256tree (q . X)) with env nil, exactly as the maintainers' benchmark does
            let native = {
                let op = a.new_small_number(63).unwrap();
                let q = a.new_pair(a.one(), n).unwrap();
                let l = a.new_pair(q, NodePtr::NIL).unwrap();
                a.new_pair(op, l).unwrap()
            };
            let o1 = run_chia(&mut a, flags, native, NodePtr::NIL, 11_000_000_000);
            let o2 = run_chia(&mut a, flags, p, n, 11_000_000_000);
            ctx.eval();
            let (Res::Ok { cost: c1, hash: h1 }, Res::Ok { cost: c2, hash: h2 }) = (&o1.res, &o2.res) else {
                if matches!(o1.res, Res::Err { .. }) && !matches!(&o1.res, Res::Err{variant, ..} if variant == "CostExceeded") {
                    ctx.violation("native-sha256tree-failed", json!({"tree": tree_json(f, t), "native": o1.res.to_json(), "chialisp": o2.res.to_json()}));
                }
                ctx.count("skipped_over_budget");
                continue;
            };
            if h1 != h2 {
                ctx.violation("native-and-chialisp-hash-differ", json!({"tree": tree_json(f, t)}));
            }
            if c1 >= c2 {
                ctx.violation("native-sha256tree-not-cheaper", json!({"tree": tree_json(f, t), "shape": shape, "native_cost": c1, "chialisp_cost": c2, "flags": crate::outcome::flags_json(flags)}));
            }
            let margin = c2 - c1.min(c2);
            ctx.count(&format!("shape_{shape}"));
            let e = ctx.counters.entry("min_margin".to_string()).or_insert(u64::MAX);
            if margin < *e {
                *e = margin;
            }
            ctx.nontrivial_bytes(&[&f.tree_hash(t), &flags.bits().to_le_bytes()]);
            ctx.sample(|| json!({"tree": tree_json(f, t), "native_cost": c1, "chialisp_cost": c2, "flags": crate::outcome::flags_json(flags)}));
        }
    }
}

pub fn run_c23(ctx: &mut Ctx) {
    let miri = ctx.miri;
    // directed: single atoms of every length class, extremes
    let mut id = 0u64;
    let lens: Vec<usize> = if miri { vec![0, 1, 40] } else { vec![0, 1, 2, 31, 32, 33, 64, 100, 1000, 10_000, 100_000, 1_000_000, 4_000_000] };
    for n in lens {
        let cid = DIRECTED | id;
        id += 1;
        if !ctx.want(cid) {
            continue;
        }
        let mut f = Forest::new();
        let x = f.atom(&vec![0xff; n]);
        check23(ctx, &f, x, "single_atom");
        // one huge atom next to / below shared small pairs (per-byte cost dominates)
        let s1 = f.atom(&[1]);
        let s2 = f.atom(&[2]);
        let p = f.pair(s1, s2);
        let pp = f.pair(p, p);
        let t = f.pair(pp, x);
        check23(ctx, &f, t, "shared_pairs_then_blob");
        let t2 = f.pair(x, pp);
        check23(ctx, &f, t2, "blob_then_shared_pairs");
        let t3 = f.pair(x, x);
        check23(ctx, &f, t3, "blob_twice");
    }
    for depth in 1..=(if miri { 3 } else { 16 }) {
        for leaf in [0usize, 1, 2, 100] {
            let cid = DIRECTED | id;
            id += 1;
            if !ctx.want(cid) {
                continue;
            }
            let mut f = Forest::new();
            let mut t = f.atom(&vec![0x80; leaf]);
            for _ in 0..depth {
                t = f.pair(t, t);
            }
            check23(ctx, &f, t, "complete_shared");
            let mut u = crate::genr::unshare(&mut f, t);
            if depth <= 10 {
                check23(ctx, &f, u, "complete_unshared");
                let x = f.atom(&[5; 3000]);
                u = f.pair(u, x);
                check23(ctx, &f, u, "complete_unshared_plus_blob");
            }
        }
    }
    let n = ctx.n(200_000, 6_000_000);
    random_cases!(ctx, n, |r, _i| {
        let mut f = Forest::new();
        let max_atom = *r.pick(&[0usize, 3, 40, 40, 2000, 60_000]);
        let t = small_tree(&mut r, &mut f, 150, max_atom);
        let (pairs, atoms, len) = f.expanded_stats(t);
        if pairs + atoms > 300_000 || len > 5_000_000 {
            continue;
        }
        let sh = if pairs == 0 { "random_atom" } else { "random_tree" };
        check23(ctx, &f, t, sh);
    });
}

// ---------------------------------------------------------------- C24

fn check24(ctx: &mut Ctx, r: &mut Rng, f: &Forest, t: Id) {
    let mut a = Allocator::new();
    // equal atoms deliberately stored in different representations
    let mut rr = Rng::new(r.u64());
    let vary = *r.pick(&[0u64, 5, 10, 16]);
    let mut plan = move |_id: Id, b: &[u8]| -> Repr {
        if b.len() < 5000 && rr.below(16) < vary { *rr.pick(&[Repr::Heap, Repr::View, Repr::Concat]) } else { Repr::Auto }
    };
    let Ok(n) = f.materialize(&mut a, t, &mut plan) else { return };
    ctx.eval();
    let fail = |ctx: &mut Ctx, sig: &str, d: Value| {
        ctx.violation(sig, json!({"tree": tree_json(f, t), "representation_variation": vary, "detail": d}));
    };
    let Ok(Ok(it)) = guarded(|| intern_tree(&a, n)) else {
        fail(ctx, "intern_tree-failed", json!({}));
        return;
    };
    // same tree
    if !f.eq_node(t, &it.allocator, it.root) {
        fail(ctx, "interned-tree-differs", json!({}));
    }
    let model_hash = f.tree_hash(t);
    if it.tree_hash() != model_hash || node_tree_hash(&it.allocator, it.root) != model_hash {
        fail(ctx, "interned-tree-hash-differs", json!({}));
    }
    let (_, _, explen) = f.expanded_stats(t);
    if explen <= 1_000_000 {
        let s1 = node_to_bytes_limit(&it.allocator, it.root, explen as usize + 16).ok();
        if s1.as_deref() != Some(f.classic_bytes(t).as_slice()) {
            fail(ctx, "interned-serialization-differs", json!({}));
        }
    }
    // atoms pairwise distinct byte strings, pairs pairwise distinct sub-trees
    let mut seen = std::collections::HashSet::new();
    for x in &it.atoms {
        if !seen.insert(it.allocator.atom(*x).as_ref().to_vec()) {
            fail(ctx, "interned-atoms-not-distinct", json!({"duplicate": hex::encode(it.allocator.atom(*x).as_ref())}));
            break;
        }
    }
    let mut seenp = std::collections::HashSet::new();
    for p in &it.pairs {
        if !seenp.insert(node_tree_hash(&it.allocator, *p)) {
            fail(ctx, "interned-pairs-not-distinct", json!({}));
            break;
        }
    }
    // counts equal the independent hash-consing census of the source
    let (da, dp) = f.distinct_census(t);
    if it.atoms.len() != da || it.pairs.len() != dp {
        fail(ctx, "interned-counts-wrong", json!({"atoms": it.atoms.len(), "pairs": it.pairs.len(), "distinct_atoms": da, "distinct_pairs": dp}));
    }
    let reach = f.reachable(t);
    let src_atoms = reach.iter().filter(|i| f.is_atom(**i)).count();
    let src_pairs = reach.len() - src_atoms;
    if it.atoms.len() > src_atoms || it.pairs.len() > src_pairs {
        fail(ctx, "interned-counts-exceed-source", json!({"atoms": it.atoms.len(), "pairs": it.pairs.len(), "source_atoms": src_atoms, "source_pairs": src_pairs}));
    }
    if da < src_atoms || dp < src_pairs {
        ctx.nontrivial_bytes(&[&model_hash, &vary.to_le_bytes()]);
        ctx.sample(|| json!({"tree": tree_json(f, t), "distinct_atoms": da, "distinct_pairs": dp, "source_atom_nodes": src_atoms, "source_pair_nodes": src_pairs}));
    }
}

pub fn run_c24(ctx: &mut Ctx) {
    let n = ctx.n(500_000, 20_000_000);
    random_cases!(ctx, n, |r, _i| {
        let mut f = Forest::new();
        let mut t = small_tree(&mut r, &mut f, 200, 50);
        if r.chance(1, 2) {
            // unshared copy next to the original: equal sub-trees that are different nodes
            let (p, a, _) = f.expanded_stats(t);
            if p + a < 2000 {
                let u = crate::genr::unshare(&mut f, t);
                t = f.pair(t, u);
            }
        }
        if r.chance(1, 3) {
            // equal small atoms as separate nodes (they will get different representations)
            let v = gen_atom(&mut r, 4);
            let xs: Vec<Id> = (0..4).map(|_| f.atom(&v)).collect();
            let l = f.list(&xs);
            t = f.pair(l, t);
        }
        let (p, a, _) = f.expanded_stats(t);
        if p + a > 500_000 {
            continue;
        }
        check24(ctx, &mut r, &f, t);
    });
}

// ---------------------------------------------------------------- C19

const SENTINEL_BYTES: &[u8] = b"\xfa\xce\xfe\xed-sentinel-\x00\x01";

struct Piece {
    id: Id,
    sentinels: usize,
}

/// a tree with `k` occurrences of the sentinel at random leaf positions
fn gen_piece(r: &mut Rng, f: &mut Forest, pool: &mut Vec<Id>, sent: Id, k: usize) -> Piece {
    // leaves: k sentinels + some atoms / earlier sub-trees (forces back-references across cuts)
    let mut leaves: Vec<Id> = vec![sent; k];
    let extra = r.range(1, 6) as usize;
    for _ in 0..extra {
        if !pool.is_empty() && r.chance(1, 2) {
            leaves.push(*r.pick(pool));
        } else {
            let b = if r.chance(1, 2) { vec![0x90 | (r.u8() & 7); r.range(3, 12) as usize] } else { gen_atom(r, 20) };
            let a = f.atom(&b);
            pool.push(a);
            leaves.push(a);
        }
    }
    // shuffle
    for i in (1..leaves.len()).rev() {
        let j = r.usize(i + 1);
        leaves.swap(i, j);
    }
    // combine randomly into one tree (order of leaves preserved = pre-order positions)
    while leaves.len() > 1 {
        let i = r.usize(leaves.len() - 1);
        let p = f.pair(leaves[i], leaves[i + 1]);
        if !contains(f, p, sent) {
            pool.push(p);
        }
        leaves[i] = p;
        leaves.remove(i + 1);
    }
    Piece { id: leaves[0], sentinels: k }
}

fn contains(f: &Forest, root: Id, what: Id) -> bool {
    f.reachable(root).contains(&what)
}

/// model: substitute sentinels in pre-order (left first) by the following pieces
fn assemble(f: &mut Forest, pieces: &[Id], sent: Id) -> Option<Id> {
    fn go(f: &mut Forest, pieces: &[Id], next: &mut usize, node: Id, sent: Id, depth: usize) -> Option<Id> {
        if depth > 3000 {
            return None;
        }
        if node == sent {
            let p = *pieces.get(*next)?;
            *next += 1;
            return go(f, pieces, next, p, sent, depth + 1);
        }
        match f.get(node).clone() {
            MNode::Atom(_) => Some(node),
            MNode::Pair(l, r) => {
                if !f.reachable(node).contains(&sent) {
                    return Some(node);
                }
                let nl = go(f, pieces, next, l, sent, depth + 1)?;
                let nr = go(f, pieces, next, r, sent, depth + 1)?;
                Some(f.pair(nl, nr))
            }
        }
    }
    let mut next = 1;
    let first = *pieces.first()?;
    let t = go(f, pieces, &mut next, first, sent, 0)?;
    if next == pieces.len() { Some(t) } else { None }
}

/// call-site class of a history: does any added tree (retained or undone)
/// contain the sentinel more than once; otherwise was anything undone
fn history_class(pieces: &[Piece], steps: &[Step]) -> &'static str {
    let multi = steps.iter().any(|s| matches!(s, Step::Add(i) if pieces[*i].sentinels > 1));
    let undo = steps.iter().any(|s| matches!(s, Step::Undo));
    if multi {
        "repeated-sentinel-in-one-added-tree"
    } else if undo {
        "after-undo"
    } else {
        "plain"
    }
}

#[derive(Clone)]
enum Step {
    Add(usize),
    Undo,
}

/// run one history under a forced salt; returns the buffer after every step
fn run_history(
    a: &Allocator,
    nodes: &[NodePtr],
    sentinel: NodePtr,
    steps: &[Step],
    salt: Option<u64>,
) -> Result<(Vec<Vec<u8>>, Vec<bool>, Vec<String>), String> {
    clvmr::verif_hooks::set_salt_override(salt);
    let out = guarded(|| {
        let mut ser = Serializer::new(Some(sentinel));
        let mut undo: Vec<(UndoState, Vec<u8>)> = Vec::new();
        let mut bufs = Vec::new();
        let mut dones = Vec::new();
        let mut errors = Vec::new();
        for s in steps {
            match s {
                Step::Add(i) => {
                    let snapshot = ser.get_ref().clone();
                    match ser.add(a, nodes[*i]) {
                        Ok((done, st)) => {
                            undo.push((st, snapshot));
                            dones.push(done);
                        }
                        Err(e) => {
                            errors.push(format!("add failed: {e}"));
                            dones.push(false);
                        }
                    }
                }
                Step::Undo => {
                    let (st, snapshot) = undo.pop().expect("history generator keeps undo LIFO");
                    ser.restore(st);
                    if *ser.get_ref() != snapshot || ser.size() != snapshot.len() as u64 {
                        errors.push(format!("undo did not restore the buffer: have {} bytes, snapshot {} bytes", ser.get_ref().len(), snapshot.len()));
                    }
                    dones.push(false);
                }
            }
            bufs.push(ser.get_ref().clone());
        }
        (bufs, dones, errors)
    });
    clvmr::verif_hooks::set_salt_override(None);
    out.map_err(crate::outcome::panic_msg)
}

fn check19(ctx: &mut Ctx, r: &mut Rng) {
    let mut f = Forest::new();
    let sent = f.atom(SENTINEL_BYTES);
    let mut pool: Vec<Id> = Vec::new();
    // generate the history on the model first
    let mut pieces: Vec<Piece> = Vec::new();
    let mut steps: Vec<Step> = Vec::new();
    let mut retained: Vec<usize> = Vec::new(); // indices into pieces
    let mut pending: i64 = 1;
    let mut undone_then_readded = false;
    let mut just_undone = false;
    let max_steps = r.range(2, 14);
    let repeated_sentinels = r.chance(1, 2);
    let mut guard = 0;
    while pending > 0 && guard < 60 {
        guard += 1;
        // undo?
        if !retained.is_empty() && r.chance(1, 4) {
            let levels = if r.chance(1, 4) { r.range(1, retained.len() as u64) } else { 1 };
            for _ in 0..levels {
                let i = retained.pop().unwrap();
                pending -= pieces[i].sentinels as i64 - 1;
                steps.push(Step::Undo);
            }
            just_undone = true;
            continue;
        }
        let closing = steps.len() as u64 >= max_steps;
        let k = if closing {
            0
        } else if repeated_sentinels {
            *r.pick(&[0usize, 1, 1, 2, 3])
        } else {
            *r.pick(&[0usize, 1, 1, 1])
        };
        let p = gen_piece(r, &mut f, &mut pool, sent, k);
        pieces.push(p);
        let i = pieces.len() - 1;
        retained.push(i);
        pending += k as i64 - 1;
        steps.push(Step::Add(i));
        if just_undone {
            undone_then_readded = true;
        }
        just_undone = false;
        // occasionally undo the final add and close differently
        if pending == 0 && r.chance(1, 5) && guard < 50 {
            let i = retained.pop().unwrap();
            pending -= pieces[i].sentinels as i64 - 1;
            steps.push(Step::Undo);
            just_undone = true;
        }
    }
    if pending != 0 {
        return;
    }
    // materialise every piece in one allocator (shared atoms / sub-trees stay shared)
    let mut a = Allocator::new();
    let mut memo: std::collections::HashMap<Id, NodePtr> = std::collections::HashMap::new();
    let mut nodes: Vec<NodePtr> = Vec::new();
    for p in &pieces {
        for id in f.reachable(p.id) {
            if memo.contains_key(&id) {
                continue;
            }
            let n = match f.get(id) {
                MNode::Atom(b) => crate::model::make_atom(&mut a, b, if id == sent { Repr::Heap } else { Repr::Auto }).unwrap(),
                MNode::Pair(l, rr) => a.new_pair(memo[l], memo[rr]).unwrap(),
            };
            memo.insert(id, n);
        }
        nodes.push(memo[&p.id]);
    }
    let sentinel = *memo.entry(sent).or_insert_with(|| crate::model::make_atom(&mut a, SENTINEL_BYTES, Repr::Heap).unwrap());
    ctx.eval();
    let describe = |f: &Forest| {
        json!({
            "steps": steps.iter().map(|s| match s { Step::Add(i) => format!("add(piece {i})"), Step::Undo => "undo".to_string() }).collect::<Vec<_>>(),
            "pieces": pieces.iter().map(|p| hex::encode(f.classic_bytes(p.id))).collect::<Vec<_>>(),
            "sentinel": hex::encode(SENTINEL_BYTES),
            "retained": retained,
        })
    };
    let base = match run_history(&a, &nodes, sentinel, &steps, None) {
        Ok(x) => x,
        Err(m) => {
            ctx.violation("incremental-serializer-panicked", json!({"history": describe(&f), "panic": m}));
            return;
        }
    };
    for e in &base.2 {
        let sig = if e.starts_with("undo") { "undo-does-not-restore-bytes" } else { "incremental-add-failed" };
        ctx.violation(sig, json!({"history": describe(&f), "detail": e}));
    }
    // done flags follow the model
    {
        let mut pend: i64 = 1;
        let mut stack: Vec<usize> = Vec::new();
        for (k, s) in steps.iter().enumerate() {
            match s {
                Step::Add(i) => {
                    pend += pieces[*i].sentinels as i64 - 1;
                    stack.push(*i);
                    if base.1[k] != (pend == 0) {
                        ctx.violation("done-flag-wrong", json!({"history": describe(&f), "step": k, "done": base.1[k], "model_pending": pend}));
                    }
                }
                Step::Undo => {
                    let i = stack.pop().unwrap();
                    pend -= pieces[i].sentinels as i64 - 1;
                }
            }
        }
    }
    // salt independence: identical bytes at every step
    let salts: &[u64] = if ctx.miri { &[0] } else { &[0, u64::MAX, 0x0123_4567_89ab_cdef, 0x0123_4567_89ab_cdee] };
    for s in salts {
        match run_history(&a, &nodes, sentinel, &steps, Some(*s)) {
            Ok(other) => {
                ctx.count("salted_histories");
                if other.0 != base.0 {
                    let k = (0..base.0.len()).find(|k| other.0[*k] != base.0[*k]).unwrap_or(0);
                    ctx.violation("incremental-bytes-depend-on-salt", json!({"history": describe(&f), "salt": format!("{s:#x}"), "first_differing_step": k}));
                    break;
                }
            }
            Err(m) => {
                ctx.violation("incremental-serializer-panicked", json!({"history": describe(&f), "salt": format!("{s:#x}"), "panic": m}));
                break;
            }
        }
    }
    // final output decodes to the tree assembled from the retained additions
    let final_bytes = base.0.last().cloned().unwrap_or_default();
    let ids: Vec<Id> = retained.iter().map(|i| pieces[*i].id).collect();
    let Some(expect) = assemble(&mut f, &ids, sent) else {
        ctx.count("model_assembly_skipped");
        return;
    };
    let mut b = Allocator::new();
    match node_from_bytes_backrefs(&mut b, &final_bytes) {
        Ok(m) => {
            if !f.eq_node(expect, &b, m) {
                let mut g = Forest::new();
                let got = g.import(&b, m);
                let sig = format!("incremental-output-wrong/{}", history_class(&pieces, &steps));
                ctx.violation(&sig, json!({"history": describe(&f), "output": hex::encode(&final_bytes), "expected_tree": hex::encode(f.classic_bytes(expect)),
                    "decoded_tree": hex::encode(g.classic_bytes(got))}));
            }
            if serialized_length_from_bytes(&final_bytes).ok() != Some(final_bytes.len() as u64) {
                ctx.violation("incremental-output-has-trailing-or-missing-bytes", json!({"history": describe(&f), "output": hex::encode(&final_bytes)}));
            }
        }
        Err(e) => {
            let sig = format!("incremental-output-wrong/{}", history_class(&pieces, &steps));
            ctx.violation(&sig, json!({"history": describe(&f), "output": hex::encode(&final_bytes), "decode_error": e.to_string()}));
        }
    }
    let has_ref = final_bytes.contains(&0xfe);
    ctx.count(if has_ref { "outputs_with_backrefs" } else { "outputs_without_backrefs" });
    if pieces.iter().any(|p| p.sentinels > 1) {
        ctx.count("histories_with_repeated_sentinels");
    }
    if undone_then_readded {
        ctx.count("histories_with_undo_then_different_add");
    }
    if undone_then_readded && has_ref {
        ctx.nontrivial_bytes(&[&final_bytes, &(steps.len() as u64).to_le_bytes()]);
        ctx.sample(|| json!({"history": describe(&f), "output": hex::encode(&final_bytes)}));
    }
    // the plain (non-incremental) serializer agrees on what the tree is
    let _ = node_to_bytes_backrefs;
}

pub fn run_c19(ctx: &mut Ctx) {
    let n = ctx.n(150_000, 20_000_000);
    random_cases!(ctx, n, |r, _i| {
        check19(ctx, &mut r);
    });
}
