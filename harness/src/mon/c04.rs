//! C04 — ENABLE_GC is unobservable.
//! Differential monitor: the same (program, env, budget, allocator) is run
//! with flags F and F|ENABLE_GC; result, cost, error message and the
//! allocator's atom/pair/heap counts must be identical.

use crate::genr::{ProgCfg, gen_flags};
use crate::model::{Forest, Id};
use crate::outcome::{Outcome, Res, counts, flags_json, run_chia};
use crate::report::{Ctx, DIRECTED};
use crate::rng::Rng;
use crate::util::{gen_program, materialize2, prog_json};
use crate::{random_cases, sexp};
use clvmr::allocator::Allocator;
use clvmr::chia_dialect::ClvmFlags;
use serde_json::json;

const MAX_ATOMS: usize = 62_500_000;
const MAX_PAIRS: usize = 62_500_000;

#[derive(Clone, Copy, Debug)]
struct Limits {
    heap: Option<usize>,
    atom_room: Option<usize>,
    pair_room: Option<usize>,
}

fn setup(
    f: &Forest,
    prog: Id,
    env: Id,
    plan_seed: u64,
    vary: u64,
    lim: Limits,
) -> Option<(Allocator, clvmr::NodePtr, clvmr::NodePtr)> {
    let mut a = match lim.heap {
        Some(h) => Allocator::new_limited(h),
        None => Allocator::new(),
    };
    let (p, e) = materialize2(f, &mut a, prog, env, plan_seed, vary)?;
    if let Some(room) = lim.atom_room {
        let used = a.atom_count();
        a.add_ghost_atom(MAX_ATOMS.checked_sub(used + room)?).ok()?;
    }
    if let Some(room) = lim.pair_room {
        let used = a.pair_count();
        a.add_ghost_pair(MAX_PAIRS.checked_sub(used + room)?).ok()?;
    }
    Some((a, p, e))
}

fn run_one(
    f: &Forest,
    prog: Id,
    env: Id,
    plan_seed: u64,
    vary: u64,
    lim: Limits,
    flags: ClvmFlags,
    budget: u64,
) -> Option<(Outcome, crate::outcome::Counts, Vec<u8>, usize)> {
    let (mut a, p, e) = setup(f, prog, env, plan_seed, vary, lim)?;
    let before = counts(&a);
    clvmr::verif_hooks::take_events();
    clvmr::verif_hooks::set_recording(true);
    let o = run_chia(&mut a, flags, p, e, budget);
    clvmr::verif_hooks::set_recording(false);
    let mut kinds = Vec::new();
    // bytes copied by substrings of inline atoms that are still counted at the end of the run: copies made
    // inside a softfork guard are dropped again by the guard's restore
    let mut copies: Vec<usize> = vec![0];
    for ev in clvmr::verif_hooks::take_events() {
        match ev {
            clvmr::verif_hooks::Event::GcRestore { kind } => kinds.push(kind),
            clvmr::verif_hooks::Event::InlineSubstrCopy { len } => *copies.last_mut().unwrap() += len,
            clvmr::verif_hooks::Event::GuardEnter { .. } => copies.push(0),
            clvmr::verif_hooks::Event::GuardExit { .. } => {
                if copies.len() > 1 {
                    copies.pop();
                }
            }
        }
    }
    let copied: usize = copies.iter().sum();
    Some((o, before, kinds, copied))
}

#[allow(clippy::too_many_arguments)]
fn compare(
    ctx: &mut Ctx,
    f: &Forest,
    prog: Id,
    env: Id,
    base: ClvmFlags,
    plan_seed: u64,
    vary: u64,
    lim: Limits,
    budget: u64,
) -> Option<Outcome> {
    let base = base & !ClvmFlags::ENABLE_GC;
    let (o1, _b1, _, copied1) = run_one(f, prog, env, plan_seed, vary, lim, base, budget)?;
    let (o2, _b2, kinds, copied2) =
        run_one(f, prog, env, plan_seed, vary, lim, base | ClvmFlags::ENABLE_GC, budget)?;
    ctx.eval();
    for k in &kinds {
        ctx.count(match k {
            0 => "gc_restore_noreplace",
            1 => "gc_restore_replace",
            _ => "gc_restore_aborted",
        });
    }
    ctx.count(&format!("outcome_{}", o1.res.variant()));
    let same_res = match (&o1.res, &o2.res) {
        (Res::Ok { .. }, Res::Ok { .. }) => o1.res == o2.res,
        (Res::Err { msg: m1, .. }, Res::Err { msg: m2, .. }) => m1 == m2,
        _ => false,
    };
    let same_counts = o1.counts == o2.counts;
    let reclaimed = o1.allocated != o2.allocated;
    if reclaimed {
        let pj = prog_json(f, prog, env);
        ctx.nontrivial_bytes(&[
            pj.to_string().as_bytes(),
            &base.bits().to_le_bytes(),
            &budget.to_le_bytes(),
            format!("{lim:?}").as_bytes(),
        ]);
        ctx.count("reclaimed_cases");
        if lim.heap.is_some() || lim.atom_room.is_some() || lim.pair_room.is_some() {
            ctx.count("reclaimed_cases_limited_allocator");
        }
        ctx.sample(|| {
            json!({"case": pj, "flags": flags_json(base), "budget": budget,
                   "without_gc": o1.res.to_json(), "allocated_without": o1.allocated.to_json(),
                   "allocated_with": o2.allocated.to_json(), "gc_events": kinds})
        });
    }
    if !same_res || !same_counts || matches!(o1.res, Res::Panic(_)) || matches!(o2.res, Res::Panic(_)) {
        // Known consequence of the C12 finding (substr of an inline atom copies bytes and counts them): a
        // reclaimed atom may come back inline, so the two runs copy different numbers of bytes. Recognised
        // only when the heap sizes differ by exactly the difference in copied bytes and nothing else differs.
        let heap_only = same_res
            && o1.counts.atoms == o2.counts.atoms
            && o1.counts.pairs == o2.counts.pairs
            && !matches!(o1.res, Res::Panic(_))
            && !matches!(o2.res, Res::Panic(_));
        let explained = heap_only
            && copied1 != copied2
            && o1.counts.heap as i128 - copied1 as i128 == o2.counts.heap as i128 - copied2 as i128;
        // the same finding seen through a heap limit: exactly one run is out of memory, and without the heap
        // limit the two runs differ only by the explained inline-substr bytes, with the limit between the two
        // final heap sizes
        let oom = |o: &Outcome| matches!(&o.res, Res::Err { variant, .. } if variant == "OutOfMemory");
        let mut window = false;
        if !same_res && lim.heap.is_some() && (oom(&o1) != oom(&o2)) {
            let nolim = Limits { heap: None, ..lim };
            if let (Some((u1, _, _, c1)), Some((u2, _, _, c2))) = (
                run_one(f, prog, env, plan_seed, vary, nolim, base, budget),
                run_one(f, prog, env, plan_seed, vary, nolim, base | ClvmFlags::ENABLE_GC, budget),
            ) {
                let h = lim.heap.unwrap();
                let (lo, hi) = (u1.counts.heap.min(u2.counts.heap), u1.counts.heap.max(u2.counts.heap));
                window = u1.res == u2.res
                    && u1.counts.atoms == u2.counts.atoms
                    && u1.counts.pairs == u2.counts.pairs
                    && c1 != c2
                    && u1.counts.heap as i128 - c1 as i128 == u2.counts.heap as i128 - c2 as i128
                    && lo <= h
                    && h < hi;
            }
        }
        let sig = if window {
            "gc-changes-outcome/heap-limit-between-sizes-that-differ-by-inline-substr-copies"
        } else if !same_res {
            "gc-changes-outcome"
        } else if explained {
            "gc-changes-counts/heap-only/equals-difference-in-inline-substr-copies"
        } else {
            "gc-changes-counts"
        };
        let mut d = prog_json(f, prog, env);
        d["flags"] = flags_json(base);
        d["budget"] = json!(budget);
        d["limits"] = json!(format!("{lim:?}"));
        d["plan_seed"] = json!(plan_seed);
        d["without_gc"] = o1.res.to_json();
        d["with_gc"] = o2.res.to_json();
        d["counts_without_gc"] = o1.counts.to_json();
        d["counts_with_gc"] = o2.counts.to_json();
        d["inline_substr_copied_bytes"] = json!([copied1, copied2]);
        ctx.violation(sig, d);
    }
    Some(o1)
}

/// a room that is either anywhere below the need or right at it (exact, one short, one spare)
fn near(r: &mut Rng, need: usize) -> usize {
    match r.below(4) {
        0 => need,
        1 => need.saturating_sub(1),
        2 => need + 1,
        _ => r.usize(need + 2),
    }
}

fn one_case(ctx: &mut Ctx, r: &mut Rng, f: &Forest, prog: Id, env: Id, base: ClvmFlags) {
    let vary = if r.chance(1, 2) { 0 } else { r.range(1, 10) };
    one_case_repr(ctx, r, f, prog, env, base, vary)
}

/// `vary`: chance in 16 that an atom is stored in a non-default representation (an operator atom stored on
/// the heap is not a reclamation candidate, so 0 keeps every candidate)
fn one_case_repr(ctx: &mut Ctx, r: &mut Rng, f: &Forest, prog: Id, env: Id, base: ClvmFlags, vary: u64) {
    let plan_seed = r.u64();
    let nolim = Limits { heap: None, atom_room: None, pair_room: None };
    // baseline at unlimited budget to learn the cost and the allocation need
    let Some(o) = compare(ctx, f, prog, env, base, plan_seed, vary, nolim, 0) else {
        return;
    };
    // budgets around the cost
    if let Some(c) = o.res.cost() {
        let b = match r.below(4) {
            0 => c,
            1 => c.saturating_sub(1).max(1),
            2 => r.range(1, c.max(1)),
            _ => c + r.below(1000),
        };
        compare(ctx, f, prog, env, base, plan_seed, vary, nolim, b);
    }
    // limited allocators: a few bytes / atoms / pairs from a cap
    let Some((a0, _, _)) = setup(f, prog, env, plan_seed, vary, nolim) else {
        return;
    };
    let c0 = counts(&a0);
    drop(a0);
    let need_heap = o.counts.heap.saturating_sub(c0.heap);
    let need_atoms = o.counts.atoms.saturating_sub(c0.atoms);
    let need_pairs = o.counts.pairs.saturating_sub(c0.pairs);
    for _ in 0..2 {
        let lim = match r.below(3) {
            0 => Limits { heap: Some(c0.heap + near(r, need_heap)), atom_room: None, pair_room: None },
            1 => Limits { heap: None, atom_room: Some(near(r, need_atoms)), pair_room: None },
            _ => Limits { heap: None, atom_room: None, pair_room: Some(near(r, need_pairs)) },
        };
        compare(ctx, f, prog, env, base, plan_seed, vary, lim, 0);
    }
}

/// directed programs that force each `MaybeRestore` outcome
pub fn directed(f: &mut Forest) -> Vec<(Id, Id)> {
    let big = f.atom(&vec![0x61; 700]);
    let big2 = f.atom(&vec![0x62; 900]);
    let env = f.list(&[big, big2]);
    let v = [("big", big), ("big2", big2)];
    let texts = [
        // result is an env atom (Before) after >1KiB garbage
        "(a (q . 2) (c (f 1) (c (concat (f 1) (f (r 1))) ())))",
        // substring view of an old atom (AfterOldBytes) + garbage
        "(a (q . (12 2 (q . 1) (q . 9))) (c (f 1) (c (concat (f 1) (f (r 1))) ())))",
        // small new atom (AfterNewBytes, <= 48 bytes)
        "(strlen (concat (f 1) (f (r 1))))",
        "(sha256 (concat (f 1) (f (r 1))))",
        "(+ (strlen (concat (f 1) (f (r 1)))) (q . 100000000000))",
        // big new atom (> 48 bytes): aborted
        "(a (q . 2) (c (concat (f 1) (f (r 1))) ()))",
        // pair result: aborted
        "(a (q . 1) (c (concat (f 1) (f (r 1))) ()))",
        "(divmod (strlen (concat (f 1) (f (r 1)))) (q . 7))",
        // nil / one results
        "(= (concat (f 1) (f (r 1))) (concat (f 1) (f (r 1))))",
        "(l (c (concat (f 1) (f (r 1))) ()))",
        "(not (concat (f 1) (f (r 1))))",
        "(any (concat (f 1) (f (r 1))) (concat (f 1) (f 1)))",
        // nested candidates
        "(+ (strlen (concat (f 1) (f (r 1)))) (strlen (concat (f 1) (f 1))) (strlen (sha256 (concat (f 1) (f (r 1))))))",
        // candidates inside a softfork guard (declared cost deliberately wrong and right handled by random part)
        "(logior (strlen (concat (f 1) (f (r 1)))) (q . 0x0080))",
        // substring of a fresh concat (AfterNewBytes via substr)
        "(a (q . (12 2 (q . 3) (q . 30))) (c (concat (f 1) (f (r 1))) ()))",
        // zero-length results
        "(a (q . (12 2 (q . 3) (q . 3))) (c (concat (f 1) (f (r 1))) ()))",
        "(a (q . (12 2 (q . 3) (q . 3))) (c (f 1) (c (concat (f 1) (f (r 1))) ())))",
        // reclaimed atom that fits a small integer comes back inline; substrings of it afterwards
        "(substr (a (q . (f (c (concat (q . 1) (q . 0x80)) (concat 1 1)))) (f 1)) (q . 1) (q . 2))",
        "(substr (a (q . (f (c (concat (q . 0x0080) (q . 0x0001)) (concat 1 1)))) (f 1)) (q . 0) (q . 1))",
        "(substr (a (q . (f (c (concat (q . 1) (q . 0x7f)) (concat 1 1)))) (f 1)) (q . 1) (q . 2))",
        "(concat (substr (a (q . (f (c (concat (q . 1) (q . 0x80)) (concat 1 1)))) (f 1)) (q . 0) (q . 1)) (f 1))",
        // failing inside garbage
        "(+ (strlen (concat (f 1) (f (r 1)))) (x))",
    ];
    texts
        .iter()
        .map(|t| (sexp::parse(f, t, &v), env))
        .collect()
}

/// non-tail recursion `count(n) = n ? count(n-1) + 1 : 0`: three reclamation candidates stay pending per level
pub fn deep_recursion(f: &mut Forest, n: u64) -> (Id, Id) {
    let prog = sexp::parse(
        f,
        "(a (q . (a 2 (c 2 (c 5 ())))) (c (q . (a (i 5 (q . (+ (a 2 (c 2 (c (- 5 (q . 1)) ()))) (q . 1))) (q . (q . ()))) 1)) 1))",
        &[],
    );
    let nn = f.int(n as i128);
    let env = f.list(&[nn]);
    (prog, env)
}

pub fn run(ctx: &mut Ctx) {
    // deep nesting of pending reclamation candidates (tens of thousands of open checkpoints)
    {
        let depths: &[u64] = if ctx.miri { &[40] } else if ctx.light { &[3000] } else { &[2000, 5400, 5500, 7000, 12000] };
        for (k, n) in depths.iter().enumerate() {
            let cid = DIRECTED | (1 << 40) | k as u64;
            if !ctx.want(cid) {
                continue;
            }
            let mut f = Forest::new();
            let (p, e) = deep_recursion(&mut f, *n);
            let mut r = ctx.rng(cid);
            for b in [ClvmFlags::empty(), ClvmFlags::NO_UNKNOWN_OPS | ClvmFlags::NEW_COST_MODEL] {
                one_case_repr(ctx, &mut r, &f, p, e, b, 0);
            }
            ctx.count("deep_recursion_cases");
        }
    }
    // directed cases × base flag sets
    let mut f = Forest::new();
    let d = directed(&mut f);
    let bases = [
        ClvmFlags::empty(),
        clvmr::chia_dialect::MEMPOOL_MODE,
        ClvmFlags::NEW_COST_MODEL,
        ClvmFlags::MALACHITE | ClvmFlags::LIMITS,
    ];
    let mut id = 0;
    for (p, e) in &d {
        for b in &bases {
            let cid = DIRECTED | id;
            id += 1;
            if !ctx.want(cid) {
                continue;
            }
            let mut r = ctx.rng(cid);
            one_case_repr(ctx, &mut r, &f, *p, *e, *b, 0);
            one_case(ctx, &mut r, &f, *p, *e, *b);
        }
    }
    let n = ctx.n(1_200_000, 100_000_000);
    random_cases!(ctx, n, |r, _i| {
        let base = gen_flags(&mut r, ClvmFlags::all() & !ClvmFlags::ENABLE_GC);
        let mut cfg = ProgCfg::full(base);
        cfg.big_atoms = true;
        cfg.bls = r.chance(1, 8);
        cfg.secp = r.chance(1, 8);
        let mut f = Forest::new();
        let p = if r.chance(1, 6) {
            // bare accumulator loop (many iterations, GC candidates `a`, `=`, `-`)
            let mut rr = r.clone();
            let pts = crate::util::points();
            let measure = |_: &Forest, _: Id, _: Id, _: Option<u32>| None;
            let mut g = crate::genr::ProgGen::new(&mut f, &mut rr, cfg, &measure, pts);
            let prog = g.accumulator_loop();
            let env = f.nil();
            crate::genr::Prog { prog, env, ops: 12, guards: 0, mutated: false }
        } else {
            gen_program(&mut f, &mut r, cfg)
        };
        one_case(ctx, &mut r, &f, p.prog, p.env, base);
    });
}
