//! C07 — restriction flags only remove successes; RELAXED_BLS only adds them.
//! C11 — results do not depend on the cost model.
//! Differential monitors with an implication direction.

use crate::genr::{ProgCfg, gen_flags};
use crate::model::{Forest, Id};
use crate::outcome::{Res, flags_json};
use crate::random_cases;
use crate::report::{Ctx, DIRECTED};
use crate::rng::Rng;
use crate::sexp;
use crate::util::{case_key, gen_program, prog_json, run_case};
use clvmr::chia_dialect::{ClvmFlags, MEMPOOL_MODE};
use serde_json::json;

const RESTRICT: &[ClvmFlags] = &[
    ClvmFlags::NO_UNKNOWN_OPS,
    ClvmFlags::CANONICAL_INTS,
    ClvmFlags::DISABLE_OP,
    ClvmFlags::LIMIT_SOFTFORK,
    ClvmFlags::LIMITS,
    ClvmFlags::LIMIT_HEAP,
];

fn gen_restriction(r: &mut Rng) -> ClvmFlags {
    match r.below(5) {
        0 => MEMPOOL_MODE,
        1 => *r.pick(RESTRICT),
        _ => {
            let mut x = ClvmFlags::empty();
            for f in RESTRICT {
                if r.chance(1, 3) {
                    x |= *f;
                }
            }
            if x.is_empty() { *r.pick(RESTRICT) } else { x }
        }
    }
}

fn check07(ctx: &mut Ctx, r: &mut Rng, f: &Forest, prog: Id, env: Id, base: ClvmFlags, budget: u64) {
    check07_with(ctx, r, f, prog, env, base, budget, None)
}

#[allow(clippy::too_many_arguments)]
fn check07_with(ctx: &mut Ctx, r: &mut Rng, f: &Forest, prog: Id, env: Id, base: ClvmFlags, budget: u64, forced: Option<ClvmFlags>) {
    let plan = r.u64();
    let vary = if r.chance(1, 3) { r.range(1, 16) } else { 0 };
    // (1) restriction: strict success => lenient identical success
    let restr = forced.unwrap_or_else(|| gen_restriction(r));
    let lenient = base & !restr;
    let strict = lenient | restr;
    let (Some(ol), Some(os)) = (
        run_case(f, prog, env, lenient, budget, plan, vary),
        run_case(f, prog, env, strict, budget, plan, vary),
    ) else {
        return;
    };
    ctx.eval();
    ctx.count(&format!("strict_{}", os.res.variant()));
    if matches!(ol.res, Res::Panic(_)) || matches!(os.res, Res::Panic(_)) {
        let mut j = prog_json(f, prog, env);
        j["lenient"] = ol.res.to_json();
        j["strict"] = os.res.to_json();
        ctx.violation("panic", j);
        return;
    }
    if os.res.is_ok() {
        ctx.nontrivial(case_key(f, prog, env, &[&strict.bits().to_le_bytes()[..], &lenient.bits().to_le_bytes()[..], &budget.to_le_bytes()[..]].concat()));
        ctx.sample(|| {
            let mut j = prog_json(f, prog, env);
            j["lenient_flags"] = flags_json(lenient);
            j["strict_flags"] = flags_json(strict);
            j["budget"] = json!(budget);
            j["strict"] = os.res.to_json();
            j
        });
        if ol.res != os.res {
            let mut j = prog_json(f, prog, env);
            j["lenient_flags"] = flags_json(lenient);
            j["strict_flags"] = flags_json(strict);
            j["budget"] = json!(budget);
            j["lenient"] = ol.res.to_json();
            j["strict"] = os.res.to_json();
            j["plan_seed"] = json!(plan);
            j["vary"] = json!(vary);
            ctx.violation("restriction-changes-success", j);
        }
    } else if ol.res.is_ok() {
        ctx.count("restriction_turned_success_into_failure");
    }
    // (2) RELAXED_BLS: success without => identical success with
    let b0 = base & !ClvmFlags::RELAXED_BLS;
    let b1 = b0 | ClvmFlags::RELAXED_BLS;
    let (Some(o0), Some(o1)) = (
        run_case(f, prog, env, b0, budget, plan, vary),
        run_case(f, prog, env, b1, budget, plan, vary),
    ) else {
        return;
    };
    ctx.eval();
    if o0.res.is_ok() {
        if o1.res != o0.res {
            let mut j = prog_json(f, prog, env);
            j["flags"] = flags_json(b0);
            j["budget"] = json!(budget);
            j["without_relaxed"] = o0.res.to_json();
            j["with_relaxed"] = o1.res.to_json();
            ctx.violation("relaxed-bls-changes-success", j);
        }
    } else if o1.res.is_ok() {
        ctx.count("relaxed_bls_turned_failure_into_success");
    }
}

fn directed07(f: &mut Forest) -> Vec<(Id, Id)> {
    let env = f.nil();
    let big300 = f.atom(&vec![0x11; 300]);
    let big1100 = f.atom(&vec![0x11; 1100]);
    let big2100 = f.atom(&vec![0x11; 2100]);
    let badg1 = f.atom(&vec![0x99; 48]);
    let badg2 = f.atom(&vec![0x99; 96]);
    let vars = [("b300", big300), ("b1100", big1100), ("b2100", big2100), ("badg1", badg1), ("badg2", badg2)];
    let texts = [
        "(* (q . $b300) (q . 2))",
        "(* (q . 2) (q . $b300))",
        "(* (q . $b300) (q . $b300) (q . $b300) (q . $b300) (q . $b300))",
        "(/ (q . $b300) (q . 3))",
        "(/ (q . 3) (q . $b1100))",
        "(/ (q . $b2100) (q . 3))",
        "(divmod (q . $b2100) (q . 3))",
        "(% (q . $b2100) (q . 3))",
        "(% (q . $b300) (q . 3))",
        "(modpow (q . $b300) (q . 3) (q . 7))",
        "(modpow (q . 3) (q . 3) (q . 7))",
        "(g1_multiply (pubkey_for_exp (q . 1)) (q . $b1100))",
        "(g2_multiply (g2_map (q . 1)) (q . $b1100))",
        // negative and huge-negative scalars (reduced modulo the group order, sign included)
        "(g1_multiply (pubkey_for_exp (q . 1)) (q . -1))",
        "(g1_multiply (pubkey_for_exp (q . 7)) (q . -5))",
        "(g2_multiply (g2_map (q . 1)) (q . -1))",
        "(g2_multiply (g2_map (q . 1)) (q . 0xff0000000000000000000000000000000000000000000000000000000000000001))",
        "(g1_multiply (pubkey_for_exp (q . 1)) (q . 0x80000000000000000000000000000000000000000000000000000000000000000000))",
        "(pubkey_for_exp (q . -1))",
        "(pubkey_for_exp (q . 0xff000000000000000000000000000000000000000000000000000000000000000001))",
        "(g1_negate (q . $badg1))",
        "(g2_negate (q . $badg2))",
        "(g1_negate (pubkey_for_exp (q . 5)))",
        "(+ (q . 0x0001) (q . 0x00ff))",
        "(softfork (q . 0x00a0) (q . 0) (q . (q . 1)) (q . ()))",
        "(softfork (q . 160) (q . 0x0000) (q . (q . 1)) (q . ()))",
        "(softfork (q . 160) (q . 5) (q . (q . 1)) (q . ()))",
        "(softfork (q . 160) (q . 0) (q . (q . 1)))",
        // a guard that fails (wrong declared cost, failing body) behind a non-canonically spelled extension or cost
        "(softfork (q . 200) (q . 0x0000) (q . (q . 1)) (q . ()))",
        "(softfork (q . 200) (q . 0x000000) (q . (q . 1)) (q . ()))",
        "(softfork (q . 160) (q . 0x0000) (q . (x)) (q . ()))",
        "(softfork (q . 0x0000c8) (q . 0) (q . (q . 1)) (q . ()))",
        "(softfork (q . 200) (q . 0x0001) (q . (q . 1)) (q . ()))",
        "(softfork (q . 200) (q . 0x0002) (q . (q . 1)) (q . ()))",
        "(softfork (q . 200) (q . 0x00000000000005) (q . (q . 1)) (q . ()))",
        "(0x0f (q . 1))",
        "(coinid (sha256 (q . 1)) (sha256 (q . 2)) (q . 0x0001))",
        "(substr (q . \"abcdef\") (q . 0x0001))",
        "(ash (q . 1) (q . 0x0003))",
    ];
    let mut out: Vec<(Id, Id)> = texts.iter().map(|t| (sexp::parse(f, t, &vars), env)).collect();
    // every spelling of the small extension numbers (nil, one zero byte, padded) x guards that fail or succeed
    for ext in ["()", "0x00", "0x0000", "0x000000", "0x00000000", "0x0000000000", "1", "0x0001", "0x000001", "2", "0x0002", "0x0080", "0x80", "0x00ff"] {
        for (cost, body) in [("200", "(q . 1)"), ("160", "(q . 1)"), ("160", "(x)"), ("0x00a0", "(q . 1)"), ("0x0000c8", "(q . 1)")] {
            let t = format!("(softfork (q . {cost}) (q . {ext}) (q . {body}) (q . ()))");
            out.push((sexp::parse(f, &t, &vars), env));
        }
    }
    out
}

pub fn run_c07(ctx: &mut Ctx) {
    let mut f = Forest::new();
    let d = directed07(&mut f);
    let mut id = 0u64;
    for (p, e) in &d {
        for k in 0..12 {
            let cid = DIRECTED | id;
            id += 1;
            if !ctx.want(cid) {
                continue;
            }
            let mut r = ctx.rng(cid);
            let base = if k == 0 { ClvmFlags::empty() } else { gen_flags(&mut r, ClvmFlags::all()) };
            check07(ctx, &mut r, &f, *p, *e, base, 0);
            if k == 0 {
                // every restriction flag on its own, and all of them, over the empty and the new-cost-model base
                for b in [ClvmFlags::empty(), ClvmFlags::NEW_COST_MODEL] {
                    for restr in RESTRICT.iter().copied().chain([MEMPOOL_MODE]) {
                        check07_with(ctx, &mut r, &f, *p, *e, b, 0, Some(restr));
                    }
                }
            }
        }
    }
    let n = ctx.n(500_000, 40_000_000);
    random_cases!(ctx, n, |r, _i| {
        let base = gen_flags(&mut r, ClvmFlags::all());
        // programs are generated for the *lenient* dialect so that a good share succeeds
        let mut cfg = ProgCfg::full(base & !MEMPOOL_MODE);
        cfg.bls = r.chance(1, 10);
        cfg.secp = r.chance(1, 10);
        cfg.mutate_16 = 1;
        let mut f = Forest::new();
        let p = gen_program(&mut f, &mut r, cfg);
        let budget = if r.chance(3, 4) { 0 } else { r.range(1, 200_000) };
        check07(ctx, &mut r, &f, p.prog, p.env, base, budget);
    });
}

// ---------------------------------------------------------------- C11

fn check11(ctx: &mut Ctx, r: &mut Rng, f: &Forest, prog: Id, env: Id, base: ClvmFlags, budget: u64) {
    let plan = r.u64();
    let f0 = base & !ClvmFlags::NEW_COST_MODEL;
    let f1 = f0 | ClvmFlags::NEW_COST_MODEL;
    let (Some(o0), Some(o1)) = (
        run_case(f, prog, env, f0, budget, plan, 0),
        run_case(f, prog, env, f1, budget, plan, 0),
    ) else {
        return;
    };
    ctx.eval();
    ctx.count(&format!("old_{}__new_{}", if o0.res.is_ok() {"ok"} else {"err"}, if o1.res.is_ok() {"ok"} else {"err"}));
    if let (Res::Ok { cost: c0, hash: h0 }, Res::Ok { cost: c1, hash: h1 }) = (&o0.res, &o1.res) {
        if c0 != c1 {
            ctx.nontrivial(case_key(f, prog, env, &[&f0.bits().to_le_bytes()[..], &budget.to_le_bytes()[..]].concat()));
            ctx.sample(|| {
                let mut j = prog_json(f, prog, env);
                j["flags"] = flags_json(f0);
                j["old_model"] = o0.res.to_json();
                j["new_model"] = o1.res.to_json();
                j
            });
        }
        if h0 != h1 {
            let mut j = prog_json(f, prog, env);
            j["flags"] = flags_json(f0);
            j["budget"] = json!(budget);
            j["old_model"] = o0.res.to_json();
            j["new_model"] = o1.res.to_json();
            ctx.violation("result-depends-on-cost-model", j);
        }
    }
    if matches!(o0.res, Res::Panic(_)) || matches!(o1.res, Res::Panic(_)) {
        let mut j = prog_json(f, prog, env);
        j["old_model"] = o0.res.to_json();
        j["new_model"] = o1.res.to_json();
        ctx.violation("panic", j);
    }
}

pub fn run_c11(ctx: &mut Ctx) {
    // direct operator layer: every operator on generated argument lists under both models
    crate::mon::ops::run_c11_ops(ctx);
    let n = ctx.n(900_000, 40_000_000);
    random_cases!(ctx, n, |r, _i| {
        let base = gen_flags(&mut r, ClvmFlags::all());
        let mut cfg = ProgCfg::full(base & !ClvmFlags::NEW_COST_MODEL);
        cfg.bls = r.chance(1, 8);
        cfg.secp = r.chance(1, 10);
        cfg.mutate_16 = 1;
        let mut f = Forest::new();
        let p = gen_program(&mut f, &mut r, cfg);
        let budget = if r.chance(5, 6) { 0 } else { r.range(1, 1_000_000) };
        check11(ctx, &mut r, &f, p.prog, p.env, base, budget);
    });
}
