//! Rust-side loggers for the python-wheel monitors (C26, C28): what the Rust
//! core does for each generated case, to be compared with the wheel / the
//! pure-python helpers by pymon/wheelmon.py.

use crate::genr::{gen_flags, gen_int_atom, mutate_bytes, nth_string, ProgCfg, DENSE_ALPHABET};
use crate::model::Forest;
use crate::outcome::{guarded, Res};
use crate::random_cases;
use crate::report::{Ctx, DIRECTED};
use crate::rng::Rng;
use crate::util::gen_program;
use clvmr::allocator::Allocator;
use clvmr::chia_dialect::{ChiaDialect, ClvmFlags};
use clvmr::run_program::run_program;
use clvmr::serde::{node_from_bytes, node_from_bytes_backrefs, node_to_bytes, node_to_bytes_backrefs};
use clvmr::serde_2026::{deserialize_2026, serialize_2026};
use serde_json::{json, Value};

fn tree_hex(a: &Allocator, n: clvmr::NodePtr) -> Value {
    let mut g = Forest::new();
    let id = g.import(a, n);
    let (_, _, len) = g.expanded_stats(id);
    if len <= 300_000 { json!(hex::encode(g.classic_bytes(id))) } else { json!({"tree_hash": hex::encode(g.tree_hash(id))}) }
}

/// exactly what wheel/src/api.rs::run_serialized_chia_program does, in Rust
fn log_run(ctx: &mut Ctx, program: &[u8], env: &[u8], budget: u64, word: u32, case: u64) {
    let flags = ClvmFlags::from_bits_truncate(word);
    let mut a = if flags.contains(ClvmFlags::LIMIT_HEAP) { Allocator::new_limited(500_000_000) } else { Allocator::new() };
    let res: Value = (|| {
        let p = match node_from_bytes(&mut a, program) {
            Ok(p) => p,
            Err(e) => return json!({"decode_error": e.to_string()}),
        };
        let e = match node_from_bytes(&mut a, env) {
            Ok(p) => p,
            Err(e) => return json!({"decode_error": e.to_string()}),
        };
        let d = ChiaDialect::new(flags);
        let r = guarded(|| run_program(&mut a, &d, p, e, budget));
        let (res, node) = crate::outcome::res_of(&a, r);
        match res {
            Res::Ok { cost, .. } => json!({"ok": true, "cost": cost, "result": tree_hex(&a, node.unwrap())}),
            Res::Err { msg, variant } => json!({"ok": false, "msg": msg, "variant": variant}),
            Res::Panic(m) => json!({"ok": false, "msg": m, "variant": "PANIC"}),
        }
    })();
    ctx.eval();
    ctx.count(if res.get("ok").and_then(|x| x.as_bool()) == Some(true) { "run_ok" } else if res.get("decode_error").is_some() { "run_undecodable" } else { "run_err" });
    ctx.log_line(&json!({"case": case, "kind": "run", "program": hex::encode(program), "env": hex::encode(env), "budget": budget, "flags": word, "res": res}));
}

fn log_ser(ctx: &mut Ctx, f: &Forest, t: u32, case: u64) {
    let mut a = Allocator::new();
    let Ok(n) = f.materialize_auto(&mut a, t) else { return };
    let classic = f.classic_bytes(t);
    let legacy = node_to_bytes(&a, n).map(hex::encode).map_err(|e| e.to_string());
    let br = node_to_bytes_backrefs(&a, n).map(hex::encode).map_err(|e| e.to_string());
    let s26 = serialize_2026(&a, n, 0).map(hex::encode).map_err(|e| e.to_string());
    ctx.eval();
    ctx.count("ser_cases");
    ctx.log_line(&json!({"case": case, "kind": "ser", "tree": hex::encode(&classic), "tree_hash": hex::encode(f.tree_hash(t)),
        "legacy": legacy.unwrap_or_else(|e| format!("ERR:{e}")), "backrefs": br.unwrap_or_else(|e| format!("ERR:{e}")), "s2026": s26.unwrap_or_else(|e| format!("ERR:{e}"))}));
}

fn log_deser(ctx: &mut Ctx, blob: &[u8], case: u64) {
    let dec = |f: &dyn Fn(&mut Allocator) -> clvmr::error::Result<clvmr::NodePtr>| -> Value {
        let mut a = Allocator::new();
        match guarded(|| f(&mut a)) {
            Ok(Ok(n)) => json!({"ok": tree_hex(&a, n)}),
            Ok(Err(e)) => json!({"err": e.to_string()}),
            Err(_) => json!({"err": "PANIC"}),
        }
    };
    let legacy = dec(&|a| node_from_bytes(a, blob));
    let backrefs = dec(&|a| node_from_bytes_backrefs(a, blob));
    let s2026 = dec(&|a| deserialize_2026(a, blob, 1 << 20, true));
    let s2026_lenient = dec(&|a| deserialize_2026(a, blob, 1 << 20, false));
    let auto = if blob.starts_with(&clvmr::serde_2026::SERDE_2026_MAGIC_PREFIX) { s2026.clone() } else { backrefs.clone() };
    let consumed = clvmr::serde::serialized_length_from_bytes(blob).ok();
    ctx.eval();
    ctx.count(if legacy.get("ok").is_some() { "deser_legacy_ok" } else { "deser_legacy_err" });
    ctx.log_line(&json!({"case": case, "kind": "deser", "blob": hex::encode(blob), "legacy": legacy, "backrefs": backrefs, "s2026": s2026,
        "s2026_lenient": s2026_lenient, "auto": auto, "serialized_length": consumed}));
}

fn log_int(ctx: &mut Ctx, bytes: &[u8], case: u64) {
    // canonical integer encoding of the Rust core
    let v = if bytes.is_empty() { num_bigint::BigInt::from(0) } else { num_bigint::BigInt::from_signed_bytes_be(bytes) };
    let mut a = Allocator::new();
    let n = a.new_number(v.clone()).unwrap();
    let enc = a.atom(n).as_ref().to_vec();
    let back = a.number(n);
    ctx.eval();
    ctx.count("int_cases");
    ctx.log_line(&json!({"case": case, "kind": "int", "value": v.to_string(), "raw": hex::encode(bytes), "rust_bytes": hex::encode(enc), "rust_value_of_raw": back.to_string()}));
}

fn some_tree(r: &mut Rng, f: &mut Forest) -> Option<u32> {
    let sh = *r.pick(crate::genr::SHAPES);
    let size = match sh {
        crate::genr::Shape::Doubling => r.usize(9) + 1,
        _ => r.usize(80) + 1,
    };
    let ma = if r.chance(1, 25) { 9000 } else { 60 };
    let t = crate::genr::gen_tree(r, f, sh, size, ma);
    let (_, _, len) = f.expanded_stats(t);
    if len > 150_000 { None } else { Some(t) }
}

pub fn run(ctx: &mut Ctx) {
    let for_c28 = ctx.prop == "C28";
    let mut id = 0u64;
    // exhaustive short byte strings for the decoders (shared with C16's alphabet)
    let dmax = if for_c28 { 5 } else { 4 };
    for len in 0..=dmax {
        let total = (DENSE_ALPHABET.len() as u64).pow(len as u32);
        let chunks = 64.min(total);
        for c in 0..chunks {
            let cid = DIRECTED | id;
            id += 1;
            if !ctx.want(cid) {
                continue;
            }
            for v in total * c / chunks..total * (c + 1) / chunks {
                log_deser(ctx, &nth_string(DENSE_ALPHABET, len, v), cid);
            }
        }
    }
    {
        // long length prefixes: 0xfc (6 bytes, accepted when small) and 0xfe (7 bytes, always rejected by Rust)
        let cid = DIRECTED | id;
        id += 1;
        if ctx.want(cid) {
            for b in [
                "fe00000000000141", "fc0000000001ff", "fc000000000141", "fb0000000141", "f700000141", "ef000141", "df0141", "8141", "fd000000000000", "ff",
                "fe0000000000000141", "fc00000000000041", "f80000000141", "f8000000014100",
            ] {
                log_deser(ctx, &hex::decode(b).unwrap(), cid);
            }
        }
    }
    if for_c28 {
        // integers: exhaustive small range + boundaries + random
        for c in 0..16i64 {
            let cid = DIRECTED | id;
            id += 1;
            if !ctx.want(cid) {
                continue;
            }
            for v in (-40_000 + 5000 * c)..(-40_000 + 5000 * (c + 1)) {
                log_int(ctx, &crate::model::encode_int(v as i128), cid);
            }
        }
        let cid = DIRECTED | id;
        if ctx.want(cid) {
            for b in crate::genr::boundary_ints() {
                log_int(ctx, &b, cid);
            }
        }
    }
    if !for_c28 {
        // directed: programs at the thresholds of the restriction flags, under flag words built from
        // every single flag, MEMPOOL_MODE and supersets, all-ones and words with unknown bits
        let mut f = Forest::new();
        let b300 = f.atom(&vec![0x11; 300]);
        let b1100 = f.atom(&vec![0x11; 1100]);
        let b2100 = f.atom(&vec![0x11; 2100]);
        let badg1 = f.atom(&vec![0x99; 48]);
        let vars = [("b300", b300), ("b1100", b1100), ("b2100", b2100), ("badg1", badg1)];
        let texts = [
            "(* (q . $b300) (q . 2))", "(* (q . 2) (q . $b300))", "(/ (q . $b300) (q . 3))", "(/ (q . $b2100) (q . 3))", "(divmod (q . 3) (q . $b1100))",
            "(% (q . $b2100) (q . 3))", "(modpow (q . $b300) (q . 3) (q . 7))", "(modpow (q . 3) (q . 3) (q . 7))", "(g1_multiply (pubkey_for_exp (q . 1)) (q . $b1100))",
            "(g1_negate (q . $badg1))", "(+ (q . 0x0001) (q . 0x00ff))", "(softfork (q . 0x00a0) (q . 0) (q . (q . 1)) (q . ()))", "(softfork (q . 160) (q . 5) (q . (q . 1)) (q . ()))",
            "(0x0f (q . 1))", "(coinid (sha256 (q . 1)) (sha256 (q . 2)) (q . 1000))", "(sha256tree (q . (1 2 3)))", "(keccak256 (q . 1))", "(secp256k1_verify (q . 1) (q . 2) (q . 3))",
            "(concat (q . $b2100) (q . $b2100))", "(strlen (concat (q . $b1100) (q . $b1100)))",
        ];
        let mut words: Vec<u32> = vec![0, u32::MAX, clvmr::chia_dialect::MEMPOOL_MODE.bits(), clvmr::chia_dialect::MEMPOOL_MODE.bits() | 0x2000, clvmr::chia_dialect::MEMPOOL_MODE.bits() | 0x0040,
            clvmr::chia_dialect::MEMPOOL_MODE.bits() | 0x1000 | 0x0020, 0xffff_0000, 0x8000_0217, ClvmFlags::all().bits()];
        for (fl, _) in crate::outcome::ALL_FLAGS {
            words.push(fl.bits());
            words.push(clvmr::chia_dialect::MEMPOOL_MODE.bits() | fl.bits());
        }
        let env = f.nil();
        let eb = f.classic_bytes(env);
        for t in texts {
            let cid = DIRECTED | id;
            id += 1;
            if !ctx.want(cid) {
                continue;
            }
            let p = crate::sexp::parse(&mut f, t, &vars);
            let pb = f.classic_bytes(p);
            for w in &words {
                log_run(ctx, &pb, &eb, crate::outcome::UNLIMITED, *w, cid);
            }
            ctx.count("directed_flag_word_programs");
        }
    }
    let _ = id;
    let n = ctx.n(60_000, 3_000_000);
    random_cases!(ctx, n, |r, i| {
        match r.below(if for_c28 { 6 } else { 10 }) {
            0 | 1 => {
                let mut f = Forest::new();
                let Some(t) = some_tree(&mut r, &mut f) else { continue };
                log_ser(ctx, &f, t, i);
            }
            2 | 3 => {
                let mut f = Forest::new();
                let Some(t) = some_tree(&mut r, &mut f) else { continue };
                let mut a = Allocator::new();
                let Ok(n) = f.materialize_auto(&mut a, t) else { continue };
                let blob = match r.below(3) {
                    0 => f.classic_bytes(t),
                    1 => node_to_bytes_backrefs(&a, n).unwrap_or_default(),
                    _ => serialize_2026(&a, n, 0).unwrap_or_default(),
                };
                let blob = if r.chance(1, 2) { blob } else { mutate_bytes(&mut r, &blob) };
                log_deser(ctx, &blob, i);
            }
            4 => {
                let b = gen_int_atom(&mut r);
                log_int(ctx, &b, i);
                let k = r.range(9, 400) as usize;
                let big = r.bytes(k);
                log_int(ctx, &big, i);
            }
            5 => {
                let k = r.usize(24);
                let b = r.bytes(k);
                log_deser(ctx, &b, i);
            }
            _ => {
                // run_serialized_chia_program with arbitrary 32-bit flag words
                let base = gen_flags(&mut r, ClvmFlags::all());
                let mut cfg = ProgCfg::full(base);
                cfg.bls = r.chance(1, 10);
                cfg.secp = r.chance(1, 10);
                cfg.mutate_16 = 3;
                let mut f = Forest::new();
                let p = gen_program(&mut f, &mut r, cfg);
                let (_, _, pl) = f.expanded_stats(p.prog);
                let (_, _, el) = f.expanded_stats(p.env);
                if pl > 100_000 || el > 100_000 {
                    continue;
                }
                let mut pb = f.classic_bytes(p.prog);
                let mut eb = f.classic_bytes(p.env);
                if r.chance(1, 25) {
                    pb = mutate_bytes(&mut r, &pb);
                }
                if r.chance(1, 40) {
                    eb = mutate_bytes(&mut r, &eb);
                }
                let word = match r.below(4) {
                    0 => base.bits(),
                    1 => base.bits() | (r.u32() & !ClvmFlags::all().bits()), // unknown bits set
                    2 => r.u32(),
                    _ => base.bits() | ClvmFlags::LIMIT_HEAP.bits(),
                };
                let budget = match r.below(4) {
                    0 => r.range(1, 5000),
                    1 => r.range(1, 2_000_000),
                    _ => crate::outcome::UNLIMITED,
                };
                log_run(ctx, &pb, &eb, budget, word, i);
            }
        }
    });
}
