//! C02 — cost budget is sound, monotone and tight.
//! Differential monitor over budgets on identically prepared fresh allocators.

use crate::genr::{ProgCfg, gen_flags};
use crate::model::{Forest, Id};
use crate::outcome::{Res, flags_json};
use crate::random_cases;
use crate::report::{Ctx, DIRECTED};
use crate::rng::Rng;
use crate::sexp;
use crate::util::{case_key, gen_program, materialize2, prog_json, with_events};
use clvmr::chia_dialect::ClvmFlags;
use serde_json::json;

fn run_at(f: &Forest, prog: Id, env: Id, flags: ClvmFlags, budget: u64, plan: u64) -> (Res, bool) {
    let (r, e, _) = run_at_guards(f, prog, env, flags, budget, plan);
    (r, e)
}

/// also returns (cost at entry, declared cost) of every softfork guard that was entered
fn run_at_guards(f: &Forest, prog: Id, env: Id, flags: ClvmFlags, budget: u64, plan: u64) -> (Res, bool, Vec<(u64, u64)>) {
    let mut a = crate::outcome::allocator_for(flags);
    let Some((p, e)) = materialize2(f, &mut a, prog, env, plan, 0) else {
        return (Res::Panic("materialize failed".into()), false, Vec::new());
    };
    let d = clvmr::chia_dialect::ChiaDialect::new(flags);
    let (o, ev) = with_events(|| crate::outcome::run_dialect_raw(&mut a, &d, p, e, budget));
    let exempt = ev
        .iter()
        .any(|e| matches!(e, clvmr::verif_hooks::Event::GuardEnter { exempt: true, .. }))
        // only the new cost model grandfathers guards; the hook's own flag is not trusted beyond that
        && flags.contains(ClvmFlags::NEW_COST_MODEL);
    let guards = ev
        .iter()
        .filter_map(|e| match e {
            clvmr::verif_hooks::Event::GuardEnter { cost, declared, .. } => Some((*cost, *declared)),
            _ => None,
        })
        .collect();
    (o.res, exempt, guards)
}

fn fail(ctx: &mut Ctx, sig: &str, f: &Forest, prog: Id, env: Id, flags: ClvmFlags, d: serde_json::Value) {
    let mut j = prog_json(f, prog, env);
    j["flags"] = flags_json(flags);
    j["detail"] = d;
    ctx.violation(sig, j);
}

pub fn check(ctx: &mut Ctx, r: &mut Rng, f: &Forest, prog: Id, env: Id, flags: ClvmFlags) {
    check_with(ctx, r, f, prog, env, flags, false)
}

/// `straight_line`: the program is known to terminate (no recursion), so it is probed at the largest
/// budget there is instead of the finite stand-in, which lets costs up to 2^64-1 through
pub fn check_with(ctx: &mut Ctx, r: &mut Rng, f: &Forest, prog: Id, env: Id, flags: ClvmFlags, straight_line: bool) {
    let plan = r.u64();
    // first at a large finite budget (random programs may not terminate), then at a true 0
    let probe_budget = if straight_line { u64::MAX } else { crate::outcome::UNLIMITED };
    let (probe, _) = run_at(f, prog, env, flags, probe_budget, plan);
    if !straight_line && matches!(&probe, Res::Err { variant, .. } if variant == "CostExceeded") {
        ctx.count("skipped_more_expensive_than_probe_budget");
        return;
    }
    let (base, exempt0, guards) = run_at_guards(f, prog, env, flags, 0, plan);
    ctx.eval();
    if base != probe {
        fail(ctx, "budget-0-not-unlimited", f, prog, env, flags,
             json!({"at_0": base.to_json(), "probe_budget": probe_budget, "at_probe_budget": probe.to_json()}));
    }
    if let Res::Ok { cost, .. } = &base
        && *cost > 1 << 62
    {
        ctx.count("cost_above_2^62");
    }
    ctx.count(&format!("at_unlimited_{}", base.variant()));
    let mut budgets_run = 1u64;
    match &base {
        Res::Panic(m) => fail(ctx, "panic", f, prog, env, flags, json!({"msg": m})),
        Res::Err { .. } => {
            // must fail at every budget
            let mut bs = vec![1u64, 1000, r.range(1, 1 << 40), u64::MAX, u64::MAX - 1];
            // every budget inside the window of every softfork guard that was entered (a guard temporarily replaces
            // the budget by its declared cost: a finite budget must never rescue a run that fails without one)
            let mut extra = 0u64;
            for (at, declared) in &guards {
                if *declared <= 4000 && extra < 9000 {
                    bs.extend(at.saturating_sub(2)..=at + declared + 2);
                    extra += declared + 5;
                }
            }
            if extra > 0 {
                ctx.count("failing_runs_swept_over_guard_windows");
            } else if r.chance(1, 16) {
                bs.extend(1..=600u64);
                ctx.count("failing_runs_swept_over_small_budgets");
            }
            for b in bs {
                let (o, _) = run_at(f, prog, env, flags, b, plan);
                budgets_run += 1;
                if o.is_ok() {
                    fail(ctx, "fails-unlimited-succeeds-limited", f, prog, env, flags,
                         json!({"budget": b, "at_0": base.to_json(), "at_budget": o.to_json()}));
                    break;
                }
            }
        }
        Res::Ok { cost: c, .. } => {
            let c = *c;
            if c == 0 {
                fail(ctx, "zero-cost", f, prog, env, flags, json!({}));
            }
            let mut exempt = exempt0;
            // succeeding side
            let mut up = vec![u64::MAX, c.saturating_mul(2), c.saturating_add(r.below(1 << 30) + 2)];
            let mut down = vec![1u64, c / 2, c.saturating_sub(2), r.range(1, c.max(2) - 1)];
            // the smallest succeeding budget
            let bmin = if exempt {
                ctx.count("exempt_guard_entered");
                // bisection for the smallest succeeding budget >= c
                let (mut lo, mut hi) = (c, u64::MAX); // hi succeeds (== unlimited)
                let (o, e2) = run_at(f, prog, env, flags, c, plan);
                budgets_run += 1;
                exempt |= e2;
                if o == base {
                    c
                } else {
                    // invariant: lo fails, hi succeeds
                    while hi - lo > 1 {
                        let mid = lo + (hi - lo) / 2;
                        let (o, _) = run_at(f, prog, env, flags, mid, plan);
                        budgets_run += 1;
                        if o.is_ok() {
                            hi = mid;
                        } else {
                            lo = mid;
                        }
                    }
                    ctx.count("exempt_bmin_above_cost");
                    hi
                }
            } else {
                c
            };
            up.push(bmin);
            up.push(bmin.saturating_add(1));
            if bmin > 1 {
                down.push(bmin - 1);
            }
            if bmin > c {
                down.push(c);
                down.push(c + (bmin - c) / 2);
            }
            if c <= 4000 && bmin == c {
                // exhaustive sweep of every budget 1..=c+2
                ctx.count("exhaustive_budget_sweeps");
                for b in 1..=c + 2 {
                    if b >= c {
                        up.push(b);
                    } else {
                        down.push(b);
                    }
                }
            }
            for b in up {
                if b < bmin {
                    continue;
                }
                let (o, e2) = run_at(f, prog, env, flags, b, plan);
                budgets_run += 1;
                if e2 && !exempt {
                    // only reachable if guard entry depends on the budget
                    ctx.count("exempt_seen_late");
                }
                if o != base {
                    fail(ctx, "succeeding-budget-differs", f, prog, env, flags,
                         json!({"cost": c, "bmin": bmin, "budget": b, "at_0": base.to_json(), "at_budget": o.to_json()}));
                    break;
                }
                if let Res::Ok { cost, .. } = o
                    && cost > b
                {
                    fail(ctx, "cost-above-budget", f, prog, env, flags, json!({"cost": cost, "budget": b}));
                }
            }
            for b in down {
                if b == 0 || b >= bmin {
                    continue;
                }
                let (o, _) = run_at(f, prog, env, flags, b, plan);
                budgets_run += 1;
                match &o {
                    Res::Err { variant, .. } if variant == "CostExceeded" => {}
                    _ => {
                        fail(ctx, if o.is_ok() {"succeeds-below-minimum"} else {"wrong-error-below-cost"}, f, prog, env, flags,
                             json!({"cost": c, "bmin": bmin, "budget": b, "exempt": exempt, "at_0": base.to_json(), "at_budget": o.to_json()}));
                        break;
                    }
                }
            }
            if c >= 100 && budgets_run >= 6 {
                ctx.nontrivial(case_key(f, prog, env, &flags.bits().to_le_bytes()));
                ctx.sample(|| {
                    let mut j = prog_json(f, prog, env);
                    j["flags"] = flags_json(flags);
                    j["cost"] = json!(c);
                    j["smallest_succeeding_budget"] = json!(bmin);
                    j["budgets_run"] = json!(budgets_run);
                    j
                });
            }
        }
    }
    ctx.add("budget_runs", budgets_run);
}

/// directed: the *last* operation's charge crosses the budget; operators with
/// internal cost checks crossing at every argument index
fn directed(f: &mut Forest) -> Vec<(Id, Id, ClvmFlags)> {
    let mut v = Vec::new();
    let env = f.nil();
    let big = f.atom(&vec![0x7f; 500]);
    let vars = [("big", big)];
    let texts = [
        "(concat (q . $big) (q . $big) (q . $big) (q . $big))",
        "(sha256 (q . $big) (q . $big) (q . $big))",
        "(+ (q . $big) (q . $big) (q . $big))",
        "(- (q . $big) (q . $big) (q . $big))",
        "(* (q . $big) (q . $big) (q . 3))",
        "(logand (q . $big) (q . $big) (q . 3))",
        "(any (q . 1) (q . 1) (q . 1) (q . 1))",
        "(all (q . 1) (q . 1) (q . 1) (q . 1))",
        "(strlen (q . $big))",
        "(point_add (pubkey_for_exp (q . 1)) (pubkey_for_exp (q . 2)))",
        "(g1_multiply (pubkey_for_exp (q . 1)) (q . $big))",
        "(g1_map (q . $big) (q . $big))",
        "(g2_map (q . $big) (q . $big))",
        "(coinid (sha256 (q . 1)) (sha256 (q . 2)) (q . 1000))",
        "(modpow (q . $big) (q . 7) (q . 1000003))",
        "(divmod (q . $big) (q . 77))",
        "(0x3f80 (q . $big) (q . $big))",
        "(0x3f40 (q . $big) (q . $big))",
        "(0x3fc0 (q . $big) (q . $big))",
        "(c (q . 1) (c (q . 2) (c (q . 3) ())))",
        "(a (q . (+ 2 5)) (q . (10 . 20)))",
        "(i (q . 1) (q . 2) (q . 3))",
        "(softfork (q . 160) (q . 0) (q . (q . 1)) (q . ()))",
        "(softfork (q . 520) (q . 1) (q . (q . 1)) (q . ()))",
        "(softfork (q . 1000000) (q . 0) (q . (q . 1)) (q . ()))",
        "(softfork (q . 3000) (q . 1) (q . (keccak256 (q . 1) (q . 2))) (q . ()))",
        "(sha256tree (q . ((1 . 2) 3 4 $big)))",
        "(keccak256 (q . $big) (q . $big))",
        // over- and under-declared guards at the tail of the program
        "(softfork (q . 161) (q . 0) (q . (q . 42)) (q . ()))",
        "(softfork (q . 159) (q . 0) (q . (q . 42)) (q . ()))",
        "(softfork (q . 400) (q . 1) (q . (q . 42)) (q . ()))",
        "(c (q . 1) (softfork (q . 161) (q . 0) (q . (q . 42)) (q . ())))",
        "(softfork (q . 700) (q . 0) (q . (softfork (q . 161) (q . 0) (q . (q . 42)) (q . ()))) (q . ()))",
        // unknown extensions charge their declared cost: the only way to costs near 2^63 and 2^64
        "(softfork (q . 0x4000000000000000) (q . 9) (q . (x)) (q . ()))",
        "(softfork (q . 0x7fffffffffffff00) (q . 9) (q . (x)) (q . ()))",
        "(softfork (q . 0x7fffffffffffffff) (q . 9) (q . (x)) (q . ()))",
        "(softfork (q . 0x008000000000000000) (q . 9) (q . (x)) (q . ()))",
        "(softfork (q . 0x008000000000001000) (q . 77) (q . (x)) (q . ()))",
        "(softfork (q . 0x00c000000000000000) (q . 9) (q . (x)) (q . ()))",
        "(softfork (q . 0x00fffffffffffff000) (q . 9) (q . (x)) (q . ()))",
        "(softfork (q . 0x00ffffffffffffff00) (q . 9) (q . (x)) (q . ()))",
        "(softfork (q . 0x00ffffffffffffffff) (q . 9) (q . (x)) (q . ()))",
        "(c (softfork (q . 0x4000000000000000) (q . 9) (q . (x)) (q . ())) (softfork (q . 0x4000000000000000) (q . 9) (q . (x)) (q . ())))",
        "(c (softfork (q . 0x008000000000000000) (q . 9) (q . (x)) (q . ())) (softfork (q . 0x7fffffffffffff00) (q . 9) (q . (x)) (q . ())))",
        "(c (softfork (q . 0x008000000000000000) (q . 9) (q . (x)) (q . ())) (softfork (q . 0x008000000000000000) (q . 9) (q . (x)) (q . ())))",
    ];
    let sets = [
        ClvmFlags::empty(),
        ClvmFlags::NEW_COST_MODEL,
        ClvmFlags::ENABLE_SHA256_TREE | ClvmFlags::ENABLE_KECCAK_OPS_OUTSIDE_GUARD,
        ClvmFlags::NEW_COST_MODEL | ClvmFlags::ENABLE_SHA256_TREE | ClvmFlags::ENABLE_KECCAK_OPS_OUTSIDE_GUARD | ClvmFlags::ENABLE_GC,
        clvmr::chia_dialect::MEMPOOL_MODE | ClvmFlags::MALACHITE,
    ];
    for t in texts {
        let p = sexp::parse(f, t, &vars);
        for s in sets {
            v.push((p, env, s));
        }
    }
    v
}

pub fn run(ctx: &mut Ctx) {
    let mut f = Forest::new();
    let d = directed(&mut f);
    for (i, (p, e, fl)) in d.iter().enumerate() {
        let cid = DIRECTED | i as u64;
        if !ctx.want(cid) {
            continue;
        }
        let mut r = ctx.rng(cid);
        check_with(ctx, &mut r, &f, *p, *e, *fl, true);
    }
    let n = ctx.n(120_000, 20_000_000);
    random_cases!(ctx, n, |r, _i| {
        let flags = gen_flags(&mut r, ClvmFlags::all());
        let mut cfg = ProgCfg::full(flags);
        cfg.bls = r.chance(1, 10);
        cfg.secp = r.chance(1, 10);
        cfg.mutate_16 = 2;
        if r.chance(1, 3) {
            cfg.max_depth = 3;
        }
        let mut f = Forest::new();
        let p = gen_program(&mut f, &mut r, cfg);
        check(ctx, &mut r, &f, p.prog, p.env, flags);
    });
}
