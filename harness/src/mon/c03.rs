//! C03 — evaluation is independent of heap history and atom representation.
//! Differential monitor against a baseline run (fresh allocator, default atoms).

use crate::genr::{gen_atom, gen_flags, gen_tree, ProgCfg, SHAPES};
use crate::model::{Forest, Id};
use crate::outcome::{flags_json, run_chia, Res};
use crate::random_cases;
use crate::report::{Ctx, DIRECTED};
use crate::rng::Rng;
use crate::sexp;
use crate::util::{case_key, gen_program, materialize2, prog_json, run_case};
use clvmr::allocator::Allocator;
use clvmr::chia_dialect::ClvmFlags;
use serde_json::json;

fn limit_error(r: &Res) -> bool {
    matches!(r.variant(), "OutOfMemory" | "TooManyAtoms" | "TooManyPairs")
}

fn same(a: &Res, b: &Res) -> bool {
    match (a, b) {
        (Res::Ok { .. }, Res::Ok { .. }) => a == b,
        (Res::Err { variant: v1, msg: m1 }, Res::Err { variant: v2, msg: m2 }) => v1 == v2 && m1 == m2,
        _ => false,
    }
}

/// fill an allocator with unrelated history
fn prepopulate(r: &mut Rng, a: &mut Allocator, flags: ClvmFlags, ctx: &mut Ctx) {
    let steps = r.range(1, 4);
    for _ in 0..steps {
        match r.below(8) {
            6 | 7 => {
                // skewed table shapes: many more atom-table entries than heap bytes (substring views), many more
                // pairs than atoms, many inline atoms (ghost counters only), or one huge atom
                let n = r.range(1500, 6000);
                match r.below(4) {
                    0 => {
                        let base = a.new_atom(&[0x99; 64]).unwrap();
                        for i in 0..n {
                            let s = (i % 60) as u32;
                            let _ = a.new_substr(base, s, s + 1 + (i % 3) as u32);
                        }
                        ctx.count("history_many_substring_views");
                    }
                    1 => {
                        let mut x = a.nil();
                        for _ in 0..n {
                            x = a.new_pair(a.nil(), x).unwrap();
                        }
                        ctx.count("history_many_pairs");
                    }
                    2 => {
                        for i in 0..n {
                            let _ = a.new_small_number(i as u32);
                        }
                        ctx.count("history_many_inline_atoms");
                    }
                    _ => {
                        let _ = a.new_atom(&vec![0x42; 300_000]);
                        ctx.count("history_huge_atom");
                    }
                }
            }
            0 => {
                // random nodes
                let mut f = Forest::new();
                let sh = *r.pick(SHAPES);
                let sz = r.usize(40) + 1;
                let t = gen_tree(r, &mut f, sh, sz, 300);
                let _ = f.materialize(a, t, &mut crate::util::repr_plan(r.u64(), 6));
                ctx.count("history_random_nodes");
            }
            1 | 2 => {
                // an earlier run (successful or failing) in the same allocator
                let fl = gen_flags(r, ClvmFlags::all());
                let mut cfg = ProgCfg::full(fl);
                cfg.bls = r.chance(1, 3);
                cfg.mutate_16 = 5;
                let mut f = Forest::new();
                let p = gen_program(&mut f, r, cfg);
                if let Some((pp, ee)) = materialize2(&f, a, p.prog, p.env, r.u64(), 3) {
                    let o = run_chia(a, fl, pp, ee, 0);
                    ctx.count(if o.res.is_ok() { "history_earlier_run_ok" } else { "history_earlier_run_failed" });
                }
            }
            3 => {
                // a failed run that validated BLS points first (cache is kept on failure);
                // the points are drawn from the same small pools (valid and invalid blobs)
                // the programs under test use
                let mut f = Forest::new();
                let pts = crate::util::points();
                let g1 = if r.chance(1, 2) { r.pick(&pts.bad_g1) } else { r.pick(&pts.g1) }.clone();
                let g2 = if r.chance(1, 2) { r.pick(&pts.bad_g2) } else { r.pick(&pts.g2) }.clone();
                let (g1, g2) = (f.atom(&g1), f.atom(&g2));
                let text = *r.pick(&[
                    "(c (g1_negate (pubkey_for_exp (q . 7))) (c (g2_negate (g2_map (q . 9))) (x)))",
                    "(c (g1_negate (q . $g1)) (x))",
                    "(c (g2_negate (q . $g2)) (x))",
                    "(g1_negate (q . $g1))",
                    "(g2_negate (q . $g2))",
                    "(c (g2_negate (q . $g2)) (g1_negate (q . $g1)))",
                ]);
                let p = sexp::parse(&mut f, text, &[("g1", g1), ("g2", g2)]);
                let e = f.nil();
                if let Some((pp, ee)) = materialize2(&f, a, p, e, 1, 0) {
                    let o = run_chia(a, flags & !ClvmFlags::RELAXED_BLS, pp, ee, 0);
                    if !o.res.is_ok() {
                        ctx.count("history_failed_run_with_validated_points");
                    }
                }
            }
            4 => {
                let pts = crate::util::points();
                let g1: [u8; 48] = r.pick(&pts.g1).clone().try_into().unwrap();
                let g2: [u8; 96] = r.pick(&pts.g2).clone().try_into().unwrap();
                a.add_validated_g1(g1);
                a.add_validated_g2(g2);
                ctx.count("history_add_validated_points");
            }
            _ => {
                for _ in 0..r.range(1, 30) {
                    let b = gen_atom(r, 100);
                    let _ = a.new_atom(&b);
                }
                let cp = a.checkpoint();
                for _ in 0..r.range(1, 10) {
                    let b = gen_atom(r, 100);
                    let _ = a.new_atom(&b);
                }
                if r.chance(1, 2) {
                    a.restore_checkpoint(&cp);
                }
                ctx.count("history_atoms_and_checkpoint");
            }
        }
    }
}

fn check(ctx: &mut Ctx, r: &mut Rng, f: &Forest, prog: Id, env: Id, flags: ClvmFlags, budget: u64) {
    let Some(base) = run_case(f, prog, env, flags, budget, 0, 0) else {
        return;
    };
    ctx.eval();
    if limit_error(&base.res) {
        ctx.count("skipped_limit_error");
        return;
    }
    ctx.count(&format!("baseline_{}", base.res.variant()));
    let mut variants = 0;
    let report = |ctx: &mut Ctx, kind: &str, other: &Res, extra: serde_json::Value| {
        let mut j = prog_json(f, prog, env);
        j["flags"] = flags_json(flags);
        j["budget"] = json!(budget);
        j["baseline"] = base.res.to_json();
        j["variant"] = other.to_json();
        j["variant_kind"] = json!(kind);
        j["extra"] = extra;
        ctx.violation(kind, j);
    };
    // (b) re-encodings
    for _ in 0..3 {
        let plan = r.u64();
        let vary = *r.pick(&[16u64, 16, 8, 3]);
        if let Some(o) = run_case(f, prog, env, flags, budget, plan, vary) {
            variants += 1;
            ctx.count("variant_reencoded");
            if !limit_error(&o.res) && !same(&base.res, &o.res) {
                report(ctx, "representation-changes-outcome", &o.res, json!({"plan_seed": plan, "vary": vary}));
            }
        }
    }
    // (a) prior history in the same allocator
    for _ in 0..2 {
        let mut a = crate::outcome::allocator_for(flags & !ClvmFlags::LIMIT_HEAP);
        let hist_seed = r.u64();
        let mut hr = Rng::new(hist_seed);
        prepopulate(&mut hr, &mut a, flags, ctx);
        let plan = r.u64();
        let vary = *r.pick(&[0u64, 0, 8]);
        if let Some((p, e)) = materialize2(f, &mut a, prog, env, plan, vary) {
            let o = run_chia(&mut a, flags, p, e, budget);
            variants += 1;
            ctx.count("variant_history");
            if !limit_error(&o.res) && !same(&base.res, &o.res) {
                report(ctx, "history-changes-outcome", &o.res, json!({"hist_seed": hist_seed, "plan_seed": plan, "vary": vary}));
            }
            // run it a second time in the now even older allocator
            if r.chance(1, 3) {
                let o2 = run_chia(&mut a, flags, p, e, budget);
                ctx.count("variant_rerun_same_allocator");
                if !limit_error(&o2.res) && !same(&base.res, &o2.res) {
                    report(ctx, "rerun-changes-outcome", &o2.res, json!({"hist_seed": hist_seed}));
                }
            }
        }
    }
    // (c) plain repeats (random accumulator split inside add/sub)
    for _ in 0..2 {
        if let Some(o) = run_case(f, prog, env, flags, budget, 0, 0) {
            variants += 1;
            if !same(&base.res, &o.res) {
                report(ctx, "repeat-changes-outcome", &o.res, json!({}));
            }
        }
    }
    if variants > 0 && !matches!(base.res.variant(), "PathIntoAtom") {
        ctx.nontrivial(case_key(f, prog, env, &[&flags.bits().to_le_bytes()[..], &budget.to_le_bytes()[..]].concat()));
        ctx.sample(|| {
            let mut j = prog_json(f, prog, env);
            j["flags"] = flags_json(flags);
            j["baseline"] = base.res.to_json();
            j["variants_compared"] = json!(variants);
            j
        });
    }
}

fn directed(f: &mut Forest) -> Vec<(Id, Id)> {
    let env = sexp::parse(f, "(0x0080 0x00ff 0x7f 0x0000 0x00 (0x0100 . 0x008000) 300 70000000)", &[]);
    let texts = [
        "(+ 2 5 11)",
        "(- 2 5 11)",
        "(* 2 5 11)",
        "(> 2 5)",
        "(> 5 2)",
        "(>s 2 5)",
        "(= 2 (q . 128))",
        "(= 5 (q . 255))",
        "(sha256 (q . 1) 11)",
        "(sha256 (q . 1) (q . 36))",
        "(sha256 (q . 0x01) (q . 0x24))",
        "(sha256 (q . 1) 47)",
        "(logior 2 5)",
        "(lognot 23)",
        "(/ 2 11)",
        "(divmod 5 11)",
        "(% 5 11)",
        "(modpow 2 5 (q . 1000003))",
        "(ash 2 (q . 3))",
        "(lsh 5 (q . 0x0003))",
        "(substr 2 (q . 0) (q . 1))",
        "(substr 383 (q . 1) (q . 3))",
        "(concat 2 5 11)",
        "(strlen 383)",
        "(a (q . (+ 2 5)) 1)",
        "(a 2 (c (q . (q . 7)) ()))",
        "(softfork (q . 160) (q . 0) (q . (q . 1)) (q . ()))",
        "(softfork (q . 0x00a0) (q . 0x00) (q . (q . 1)) (q . ()))",
        "(g1_negate (pubkey_for_exp 11))",
        "(g2_negate (g2_map 2))",
        "(coinid (sha256 2) (sha256 5) 11)",
        "(pubkey_for_exp 383)",
        "(i 47 (q . 1) (q . 2))",
        "(i 23 (q . 1) (q . 2))",
        "(not 47)",
        "(any 47 23)",
        "(all 47 23 2)",
        "(f (q . (1 . 2)))",
        "767",
        "0x0005",
        "0x000000000b",
    ];
    texts.iter().map(|t| (sexp::parse(f, t, &[]), env)).collect()
}

pub fn run(ctx: &mut Ctx) {
    let mut f = Forest::new();
    let d = directed(&mut f);
    let mut id = 0;
    for (p, e) in &d {
        for fl in [ClvmFlags::empty(), ClvmFlags::NEW_COST_MODEL, clvmr::chia_dialect::MEMPOOL_MODE, ClvmFlags::ENABLE_GC | ClvmFlags::MALACHITE] {
            let cid = DIRECTED | id;
            id += 1;
            if !ctx.want(cid) {
                continue;
            }
            let mut r = ctx.rng(cid);
            check(ctx, &mut r, &f, *p, *e, fl, 0);
        }
    }
    // environment paths of every bit length 1..=27 (all spellings that can be stored inline) over an environment in
    // which every path of 30 steps exists: the inline and the heap / view representations take different lookup code
    {
        let mut g = Forest::new();
        let mut env = g.atom(&[0x2a]);
        for _ in 0..30 {
            env = g.pair(env, env);
        }
        for bits in 1..=27u32 {
            for fill in [0u32, u32::MAX, 0x5555_5555] {
                let cid = DIRECTED | id;
                id += 1;
                if !ctx.want(cid) {
                    continue;
                }
                let v: u32 = (1u32 << (bits - 1)) | (fill & ((1u32 << (bits - 1)) - 1));
                let prog = g.int(v as i128);
                let mut r = ctx.rng(cid);
                for fl in [ClvmFlags::empty(), ClvmFlags::NEW_COST_MODEL | ClvmFlags::ENABLE_GC] {
                    check(ctx, &mut r, &g, prog, env, fl, 0);
                }
                ctx.count("path_atoms_of_every_inline_bit_length");
            }
        }
    }
    // the programs that force every outcome of a reclaiming restore (with and without ENABLE_GC)
    {
        let d4 = super::c04::directed(&mut f);
        for (p, e) in &d4 {
            for fl in [ClvmFlags::ENABLE_GC, ClvmFlags::ENABLE_GC | ClvmFlags::NEW_COST_MODEL, ClvmFlags::empty()] {
                for _rep in 0..2 {
                    let cid = DIRECTED | id;
                    id += 1;
                    if !ctx.want(cid) {
                        continue;
                    }
                    let mut r = ctx.rng(cid);
                    check(ctx, &mut r, &f, *p, *e, fl, 0);
                    ctx.count("reclamation_programs");
                }
            }
        }
    }
    // every pool blob (valid and invalid) through the point-validating operators
    {
        let pts = crate::util::points();
        let mut blobs: Vec<(&str, Vec<u8>)> = Vec::new();
        for b in pts.g1.iter().chain(pts.bad_g1.iter()) {
            blobs.push(("(g1_negate (q . $x))", b.clone()));
            blobs.push(("(point_add (q . $x) (q . $x))", b.clone()));
            blobs.push(("(g1_multiply (q . $x) (q . 3))", b.clone()));
        }
        for b in pts.g2.iter().chain(pts.bad_g2.iter()) {
            blobs.push(("(g2_negate (q . $x))", b.clone()));
            blobs.push(("(g2_add (q . $x) (q . $x))", b.clone()));
        }
        for (t, b) in blobs {
            for fl in [ClvmFlags::empty(), ClvmFlags::RELAXED_BLS, ClvmFlags::NEW_COST_MODEL | ClvmFlags::ENABLE_GC] {
                for _rep in 0..3 {
                    let cid = DIRECTED | id;
                    id += 1;
                    if !ctx.want(cid) {
                        continue;
                    }
                    let mut r = ctx.rng(cid);
                    let mut f = Forest::new();
                    let x = f.atom(&b);
                    let p = sexp::parse(&mut f, t, &[("x", x)]);
                    let e = f.nil();
                    check(ctx, &mut r, &f, p, e, fl, 0);
                }
            }
        }
    }
    let n = ctx.n(90_000, 10_000_000);
    random_cases!(ctx, n, |r, _i| {
        let flags = gen_flags(&mut r, ClvmFlags::all());
        let mut cfg = ProgCfg::full(flags);
        cfg.bls = r.chance(1, 6);
        cfg.secp = r.chance(1, 10);
        cfg.mutate_16 = 2;
        let mut f = Forest::new();
        let p = gen_program(&mut f, &mut r, cfg);
        let budget = if r.chance(4, 5) { 0 } else { r.range(1, 500_000) };
        check(ctx, &mut r, &f, p.prog, p.env, flags, budget);
    });
}
