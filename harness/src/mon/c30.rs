//! C30 — RuntimeDialect with the standard table matches ChiaDialect.

use crate::genr::{gen_flags, ProgCfg};
use crate::model::Forest;
use crate::outcome::{flags_json, run_dialect, Res};
use crate::random_cases;
use crate::report::Ctx;
use crate::util::{case_key, contains_atom, gen_program, materialize2, prog_json};
use clvmr::allocator::Allocator;
use clvmr::chia_dialect::{ChiaDialect, ClvmFlags};
use clvmr::runtime_dialect::RuntimeDialect;
use serde_json::json;
use std::collections::HashMap;

/// the 44 names of f_table.rs mapped to their ChiaDialect opcodes
pub fn standard_table(flags: ClvmFlags) -> HashMap<String, Vec<u8>> {
    let t: &[(&str, u8)] = &[
        ("op_if", 3), ("op_cons", 4), ("op_first", 5), ("op_rest", 6), ("op_listp", 7), ("op_raise", 8), ("op_eq", 9),
        ("op_gr_bytes", 10), ("op_sha256", 11), ("op_substr", 12), ("op_strlen", 13), ("op_concat", 14),
        ("op_add", 16), ("op_subtract", 17), ("op_multiply", 18), ("op_div", 19), ("op_divmod", 20), ("op_gr", 21),
        ("op_ash", 22), ("op_lsh", 23), ("op_logand", 24), ("op_logior", 25), ("op_logxor", 26), ("op_lognot", 27),
        ("op_point_add", 29), ("op_pubkey_for_exp", 30), ("op_not", 32), ("op_any", 33), ("op_all", 34),
        ("op_g1_subtract", 49), ("op_g1_multiply", 50), ("op_g1_negate", 51), ("op_g2_add", 52), ("op_g2_subtract", 53),
        ("op_g2_multiply", 54), ("op_g2_negate", 55), ("op_g1_map", 56), ("op_g2_map", 57),
        ("op_bls_pairing_identity", 58), ("op_bls_verify", 59), ("op_modpow", 60), ("op_mod", 61),
    ];
    let mut m: HashMap<String, Vec<u8>> = t.iter().map(|(n, c)| (n.to_string(), vec![*c])).collect();
    if flags.contains(ClvmFlags::ENABLE_SECP_OPS) {
        m.insert("op_secp256k1_verify".into(), vec![64]);
        m.insert("op_secp256r1_verify".into(), vec![65]);
    }
    m
}

/// operator-level comparison: the same `Dialect::op` call on both dialects, including remaining budgets of
/// 0, 1, 2, ... and the exact cost of the call (the interpreter hands operators whatever is left of the budget)
fn op_level(ctx: &mut Ctx) {
    use crate::mon::ops::{all_ops, gen_args, SizeMode};
    use clvmr::dialect::{Dialect, OperatorSet};
    let ops: Vec<_> = all_ops().into_iter().filter(|o| !matches!(o.code, 48 | 62 | 63) && o.code < 256).collect();
    let n = ctx.n(400_000, 20_000_000);
    random_cases!(ctx, n, |r, _i| {
        let op = r.pick(&ops);
        if op.slow && !r.chance(1, 10) {
            continue;
        }
        let flags = gen_flags(
            &mut r,
            ClvmFlags::all() & !ClvmFlags::ENABLE_GC & !ClvmFlags::DISABLE_OP & !ClvmFlags::ENABLE_KECCAK_OPS_OUTSIDE_GUARD & !ClvmFlags::ENABLE_SHA256_TREE,
        );
        if matches!(op.code, 64 | 65) && !flags.contains(ClvmFlags::ENABLE_SECP_OPS) {
            continue;
        }
        let mut f = Forest::new();
        let mut args = gen_args(&mut r, &mut f, op, SizeMode::Small);
        if r.chance(1, 4) {
            // a pair somewhere behind a valid first argument: operators notice it only after charging for what precedes it
            let (mut items, tail) = crate::mon::ops::flat_args(&f, args);
            let one = f.atom(&[1]);
            let p = f.pair(one, one);
            let pos = if items.is_empty() { 0 } else { 1 + r.usize(items.len()) };
            items.insert(pos.min(items.len()), p);
            let mut l = tail;
            for it in items.iter().rev() {
                l = f.pair(*it, l);
            }
            args = l;
        }
        let chia = ChiaDialect::new(flags);
        let eff = Dialect::flags(&chia);
        let rt = RuntimeDialect::new(standard_table(flags), vec![1], vec![2], eff);
        let call = |d: &dyn Fn(&mut Allocator, clvmr::NodePtr, clvmr::NodePtr, u64) -> clvmr::reduction::Response, budget: u64| {
            let mut a = Allocator::new();
            let argn = f.materialize_auto(&mut a, args).ok()?;
            let opn = a.new_atom(&[op.code as u8]).ok()?;
            let r = crate::outcome::guarded(|| d(&mut a, opn, argn, budget));
            let (res, node) = crate::outcome::res_of(&a, r);
            let bytes = node.and_then(|n| clvmr::serde::node_to_bytes_limit(&a, n, 10_000).ok());
            Some((res, bytes))
        };
        let via_chia = |a: &mut Allocator, o, l, b| chia.op(a, o, l, b, OperatorSet::Default);
        let via_rt = |a: &mut Allocator, o, l, b| rt.op(a, o, l, b, OperatorSet::Default);
        let Some((base, _)) = call(&via_chia, u64::MAX) else { continue };
        let mut budgets = vec![0u64, 1, 2, 3, 10, 100, u64::MAX];
        if let Some(c) = base.cost() {
            budgets.extend([c, c.saturating_sub(1), c + 1, r.range(1, c.max(2))]);
        }
        for b in budgets {
            let (Some((o1, b1)), Some((o2, b2))) = (call(&via_chia, b), call(&via_rt, b)) else { continue };
            ctx.eval();
            ctx.count("operator_level_calls");
            if b <= 3 {
                ctx.count("operator_level_calls_with_tiny_remaining_budget");
            }
            let same = match (&o1, &o2) {
                (Res::Ok { cost: c1, .. }, Res::Ok { cost: c2, .. }) => c1 == c2 && b1 == b2,
                (Res::Err { variant: v1, .. }, Res::Err { variant: v2, .. }) => v1 == v2,
                _ => false,
            };
            if !same {
                let rec = json!({"operator": op.name, "opcode": op.code, "args": hex::encode(f.classic_bytes(args)), "flags": flags_json(flags),
                    "remaining_budget": b, "chia": o1.to_json(), "runtime": o2.to_json()});
                ctx.violation("runtime-dialect-differs/operator-call", rec);
                break;
            }
        }
    });
}

pub fn run(ctx: &mut Ctx) {
    op_level(ctx);
    let n = ctx.n(2_000_000, 60_000_000);
    random_cases!(ctx, n, |r, _i| {
        let flags = gen_flags(
            &mut r,
            ClvmFlags::all() & !ClvmFlags::ENABLE_GC & !ClvmFlags::DISABLE_OP
                & !ClvmFlags::ENABLE_KECCAK_OPS_OUTSIDE_GUARD & !ClvmFlags::ENABLE_SHA256_TREE,
        );
        let mut cfg = ProgCfg::full(flags);
        cfg.guards = false;
        cfg.bls = r.chance(1, 8);
        cfg.secp = flags.contains(ClvmFlags::ENABLE_SECP_OPS) && r.chance(1, 4);
        cfg.mutate_16 = 3;
        let mut f = Forest::new();
        let p = gen_program(&mut f, &mut r, cfg);
        // programs must stay inside the common vocabulary: no softfork, no coinid,
        // no keccak/sha256tree opcodes, no 4-byte secp opcodes (anywhere in program or env)
        let banned: &[&[u8]] = &[&[36], &[48], &[62], &[63], &[0x13, 0xd6, 0x1f, 0x00], &[0x1c, 0x3a, 0x8f, 0x00]];
        if contains_atom(&f, p.prog, banned) || contains_atom(&f, p.env, banned) {
            ctx.count("skipped_outside_common_vocabulary");
            continue;
        }
        let budget = if r.chance(4, 5) { 0 } else { r.range(1, 1_000_000) };
        let plan = r.u64();
        let vary = if r.chance(1, 3) { 8 } else { 0 };
        let mut a1 = Allocator::new();
        let mut a2 = Allocator::new();
        let (Some((p1, e1)), Some((p2, e2))) = (
            materialize2(&f, &mut a1, p.prog, p.env, plan, vary),
            materialize2(&f, &mut a2, p.prog, p.env, plan, vary),
        ) else {
            continue;
        };
        let chia = ChiaDialect::new(flags);
        // ChiaDialect::new drops LIMITS under NEW_COST_MODEL; hand RuntimeDialect the same effective flags
        let eff = clvmr::dialect::Dialect::flags(&chia);
        let rt = RuntimeDialect::new(standard_table(flags), vec![1], vec![2], eff);
        let o1 = run_dialect(&mut a1, &chia, p1, e1, budget);
        let o2 = run_dialect(&mut a2, &rt, p2, e2, budget);
        ctx.eval();
        ctx.count(&format!("chia_{}", o1.res.variant()));
        let in_op = match &o1.res {
            Res::Ok { .. } => true,
            Res::Err { variant, .. } => !matches!(variant.as_str(), "PathIntoAtom" | "InvalidNilTerminator"),
            _ => false,
        };
        if in_op {
            ctx.nontrivial(case_key(&f, p.prog, p.env, &[&flags.bits().to_le_bytes()[..], &budget.to_le_bytes()[..]].concat()));
            ctx.sample(|| {
                let mut j = prog_json(&f, p.prog, p.env);
                j["flags"] = flags_json(flags);
                j["chia"] = o1.res.to_json();
                j
            });
        }
        let same = match (&o1.res, &o2.res) {
            (Res::Ok { .. }, Res::Ok { .. }) => o1.res == o2.res,
            (Res::Err { variant: a, .. }, Res::Err { variant: b, .. }) => a == b,
            _ => false,
        };
        if !same {
            let mut j = prog_json(&f, p.prog, p.env);
            j["flags"] = flags_json(flags);
            j["budget"] = json!(budget);
            j["chia"] = o1.res.to_json();
            j["runtime"] = o2.res.to_json();
            ctx.violation("runtime-dialect-differs", j);
        }
    });
}
