//! Loggers for the python-side oracles:
//! C01 (reference interpreter), C09 (unknown-op rule), C10 (cost formulas),
//! C32 (independent crypto).  The Rust side only *observes*: it runs the real
//! code on generated cases and writes one JSON record per execution.

use crate::genr::{gen_atom, ProgCfg};
use crate::model::{Forest, Id};
use crate::mon::ops::{all_ops, arg_json, call, call_record, gen_args, op_by_name, OpDef, SizeMode};
use crate::outcome::{guarded, res_of, run_dialect, Res, UNLIMITED};
use crate::random_cases;
use crate::report::{Ctx, DIRECTED};
use crate::rng::Rng;
use crate::util::gen_program;
use clvmr::allocator::Allocator;
use clvmr::chia_dialect::{ChiaDialect, ClvmFlags};
use clvmr::more_ops::op_unknown;
use clvmr::runtime_dialect::RuntimeDialect;
use serde_json::{json, Value};

fn result_json(a: &Allocator, o: &crate::outcome::Outcome) -> Value {
    match &o.res {
        Res::Ok { cost, hash } => {
            let mut g = Forest::new();
            let id = g.import(a, o.node.unwrap());
            let (_, _, len) = g.expanded_stats(id);
            let result = if len <= 200_000 { json!(hex::encode(g.classic_bytes(id))) } else { Value::Null };
            json!({"ok": true, "cost": cost, "tree_hash": hex::encode(hash), "result": result})
        }
        Res::Err { variant, msg } => json!({"ok": false, "variant": variant, "msg": msg}),
        Res::Panic(m) => json!({"ok": false, "variant": "PANIC", "msg": m}),
    }
}

// ---------------------------------------------------------------- C01

fn log_c01(ctx: &mut Ctx, f: &Forest, prog: Id, env: Id, budget: u64, case: u64, tag: &str) -> Option<u64> {
    let mut a = Allocator::new();
    let p = f.materialize_auto(&mut a, prog).ok()?;
    let e = f.materialize_auto(&mut a, env).ok()?;
    let d = ChiaDialect::new(ClvmFlags::empty());
    let o = run_dialect(&mut a, &d, p, e, budget);
    ctx.eval();
    ctx.count(&format!("rust_{}", o.res.variant()));
    let (_, _, plen) = f.expanded_stats(prog);
    let (_, _, elen) = f.expanded_stats(env);
    if plen > 300_000 || elen > 300_000 {
        return o.res.cost();
    }
    let rec = json!({
        "case": case, "tag": tag,
        "program": hex::encode(f.classic_bytes(prog)),
        "env": hex::encode(f.classic_bytes(env)),
        "budget": budget,
        "res": result_json(&a, &o),
    });
    ctx.log_line(&rec);
    if matches!(o.res, Res::Panic(_)) {
        ctx.violation("panic", rec);
    }
    o.res.cost()
}

pub fn run_c01(ctx: &mut Ctx) {
    // directed: the classic programs of the repository's own run_program tests and
    // interpreter corner cases
    let texts: &[(&str, &str)] = &[
        ("(/ (q . 10) (q . -3))", "()"),
        ("(/ (q . -10) (q . 3))", "()"),
        ("(/ (q . -1) (q . 2))", "()"),
        ("(a (q 2 2 (c 2 (c 5 (c 11 ())))) (c (q 2 (i (= 11 ()) (q 1 . 1) (q 16 5 (a 2 (c 2 (c 5 (c (- 11 (q . 1)) ())))))) 1) 1))", "(5033 100)"),
        ("(f (f (q . ((100 200 300) 400 500))))", "()"),
        ("(= (f 1) (+ (f (r 1)) (f (r (r 1)))))", "(7 3 4)"),
        ("(i (f (r (r 1))) (f 1) (f (r 1)))", "(200 300 400)"),
        ("((1 . 5))", "()"),
        ("((16) 1 2 3)", "()"),
        ("((16 . 0) 1 2 3)", "()"),
        ("((16) 1 2 . 3)", "()"),
        ("((21) 5 . 3)", "()"),
        ("((2) (q . 5) ())", "()"),
        ("((1) 1 2)", "()"),
        ("(softfork (q . 160) (q . 0) (q . (q . 1)) (q . ()))", "()"),
        ("(softfork (q . 161) (q . 0) (q . (q . 1)) (q . ()))", "()"),
        ("(softfork (q . 1000) (q . 7) (q . (q . 1)) (q . ()))", "()"),
        ("(softfork (q . 1000))", "()"),
        ("(softfork (q . 0x0000a0) (q . 0x00) (q . (+ (q . 1) (q . 2))) (q . ()))", "()"),
        ("(0x0007 (q . 1))", "()"),
        ("(0xffff (q . 1))", "()"),
        ("(0x00ffff (q . 1))", "()"),
        ("(0x0102030405 (q . 1))", "()"),
        ("(0x010203040506 (q . 1))", "()"),
        ("0x0002", "(1 2)"),
        ("0x000000", "(1 2)"),
        ("0x80", "((((((((1))))))))"),
        ("0x0080", "((((((((1))))))))"),
        ("(+ (q . 0x0001) (q . 0xff) (q . 0x00ff))", "()"),
        ("(ash (q . -1) (q . -3))", "()"),
        ("(lsh (q . -1) (q . -3))", "()"),
        ("(ash (q . 1) (q . 65535))", "()"),
        ("(lsh (q . 1) (q . 0x0000ffff))", "()"),
        ("(substr (q . \"abcdef\") (q . 2))", "()"),
        ("(substr (q . \"abcdef\") (q . 2) (q . 0x00000004))", "()"),
        ("(divmod (q . -7) (q . 2))", "()"),
        ("(lognot (q . 0x00ff))", "()"),
        ("(logand)", "()"),
        ("(* (q . 0x7fffffffffffffffffffffffffffffffffffffffffffffffffffffffffffffffff) (q . 10000000))", "()"),
        ("(x (q . 1))", "()"),
        // zero-length atoms that are not the inline nil (empty substring views of heap atoms, empty concat) flowing
        // into every operator that tests for nil or measures its operand
        ("(i (substr (q . \"hello!\") (q . 2) (q . 2)) (q . 1337) (q . 42))", "()"),
        ("(not (substr (q . \"hello!\") (q . 2) (q . 2)))", "()"),
        ("(any (substr (q . \"hello!\") (q . 6) (q . 6)) (substr (q . 0x00ff) (q . 1) (q . 1)))", "()"),
        ("(all (q . 1) (substr (q . \"hello!\") (q . 0) (q . 0)))", "()"),
        ("(= (substr (q . \"hello!\") (q . 2) (q . 2)) ())", "()"),
        ("(l (substr (q . \"hello!\") (q . 2) (q . 2)))", "()"),
        ("(strlen (substr (q . \"hello!\") (q . 2) (q . 2)))", "()"),
        ("(+ (substr (q . \"hello!\") (q . 2) (q . 2)) (q . 1))", "()"),
        ("(sha256 (substr (q . \"hello!\") (q . 2) (q . 2)))", "()"),
        ("(concat (substr (q . \"hello!\") (q . 2) (q . 2)) (concat))", "()"),
        ("(i (concat (substr (q . \"hello!\") (q . 2) (q . 2)) (substr (q . \"hello!\") (q . 3) (q . 3))) (q . 1) (q . 2))", "()"),
        ("(a (substr (q . \"hello!\") (q . 2) (q . 2)) (q . 77))", "()"),
        ("(c (substr (q . \"hello!\") (q . 2) (q . 2)) (substr (q . \"hello!\") (q . 4) (q . 4)))", "()"),
        ("(f (c (q . 1) (substr (q . \"hello!\") (q . 2) (q . 2))))", "()"),
        ("(a (q . (+ 2 5)) (c (q . 1) (substr (q . \"hello!\") (q . 2) (q . 2))))", "()"),
        ("(logand (substr (q . \"hello!\") (q . 2) (q . 2)))", "()"),
        ("(substr (substr (q . \"hello!\") (q . 2) (q . 2)) () ())", "()"),
        ("(> (substr (q . \"hello!\") (q . 2) (q . 2)) (q . -1))", "()"),
        ("(>s (q . 1) (substr (q . \"hello!\") (q . 2) (q . 2)))", "()"),
        ("(a (q . 2) (q . 1))", "()"),
        ("(i (q . (1)) (q . 2) (q . 3))", "()"),
    ];
    for (i, (p, e)) in texts.iter().enumerate() {
        let cid = DIRECTED | i as u64;
        if !ctx.want(cid) {
            continue;
        }
        let mut f = Forest::new();
        let prog = crate::sexp::parse(&mut f, p, &[]);
        let env = crate::sexp::parse(&mut f, e, &[]);
        if let Some(c) = log_c01(ctx, &f, prog, env, UNLIMITED, cid, "directed") {
            for b in [c, c.saturating_sub(1).max(1), c + 1] {
                log_c01(ctx, &f, prog, env, b, cid, "directed-budget");
            }
        }
    }
    // Programs that are built at run time and then applied: the operator atom (and an inner quote) is produced by
    // substr / concat / arithmetic, so it reaches the interpreter as a heap atom, a view into another atom, or a
    // freshly computed small integer instead of an inline literal. The reference treats atoms by value.
    {
        let args_for = |op: u8| -> &'static str {
            match op {
                1 => "42",
                2 => "((q . (q . 7)) ())",
                3 => "((q . 1) (q . 2) (q . 3))",
                5 | 6 | 7 => "((q . (1 . 2)))",
                8 => "((q . 1))",
                11 | 14 => "((q . 0x0102) (q . 0x03))",
                12 => "((q . 0x0102030405) (q . 1) (q . 3))",
                13 | 26 | 27 | 32 => "((q . 0x0102))",
                36 => "((q . 160) (q . 0) (q . (q . 1)) (q . ()))",
                _ => "((q . 5) (q . 3))",
            }
        };
        let mut k = texts.len() as u64;
        for op in (1u8..=36).filter(|o| !matches!(o, 15 | 28..=31 | 35)) {
            let variants = [
                format!("(q . {op})"),
                format!("(substr (q . 0x{op:02x}00000000) () (q . 1))"),
                format!("(substr (q . 0x00{op:02x}) (q . 1))"),
                format!("(concat (q . ()) (q . {op}))"),
                format!("(concat (substr (q . 0x{op:02x}ff) () (q . 1)) (q . ()))"),
                format!("(logand (q . 0x01{op:02x}) (q . 0x00ff))"),
                format!("(- (q . {}) (q . 1))", op as u32 + 1),
            ];
            for (vi, opx) in variants.iter().enumerate() {
                let cid = DIRECTED | k;
                k += 1;
                if !ctx.want(cid) {
                    continue;
                }
                let mut f = Forest::new();
                let txt = format!("(a (c {opx} (q . {})) ())", args_for(op));
                let prog = crate::sexp::parse(&mut f, &txt, &[]);
                let env = f.nil();
                if let Some(c) = log_c01(ctx, &f, prog, env, UNLIMITED, cid, "computed-operator") {
                    log_c01(ctx, &f, prog, env, c, cid, "computed-operator-budget");
                    log_c01(ctx, &f, prog, env, c.saturating_sub(1).max(1), cid, "computed-operator-budget");
                }
                // the same operator inside a computed quote: (a (c Q (c OP ARGS)) ()) evaluates to the literal form
                if vi < 5 {
                    let qx = variants[vi].replace(&format!("{op:02x}"), "01").replace(&format!("(q . {op})"), "(q . 1)");
                    let txt = format!("(a (c {qx} (c {opx} (q . {}))) ())", args_for(op));
                    let prog = crate::sexp::parse(&mut f, &txt, &[]);
                    log_c01(ctx, &f, prog, env, UNLIMITED, cid, "computed-quote");
                }
                ctx.count("computed_operator_programs");
            }
        }
    }
    let n = ctx.n(300_000, 8_000_000);
    random_cases!(ctx, n, |r, i| {
        let mut cfg = ProgCfg::classic();
        cfg.mutate_16 = *r.pick(&[0u64, 2, 4, 8]);
        cfg.max_depth = *r.pick(&[3u32, 4, 5]);
        let mut f = Forest::new();
        let p = gen_program(&mut f, &mut r, cfg);
        let Some(c) = log_c01(ctx, &f, p.prog, p.env, UNLIMITED, i, "random") else {
            continue;
        };
        let b = match r.below(4) {
            0 => c,
            1 => c.saturating_sub(1).max(1),
            2 => c + 1,
            _ => r.range(1, c.max(1)),
        };
        log_c01(ctx, &f, p.prog, p.env, b, i, "random-budget");
    });
}

// ---------------------------------------------------------------- C09

fn c09_args(r: &mut Rng, f: &mut Forest, big: bool) -> Id {
    let n = *r.pick(&[0usize, 0, 1, 1, 2, 2, 3, 4, 6, 12]);
    let mut items = Vec::new();
    for _ in 0..n {
        let b = if big {
            let len = *r.pick(&[100_000usize, 500_000, 800_000, 1_000_000, 2_000_000]);
            vec![r.u8(); len]
        } else {
            let ml = if r.chance(1, 10) { 3000 } else { 80 };
            gen_atom(r, ml)
        };
        items.push(f.atom(&b));
    }
    if !items.is_empty() && r.chance(1, 8) {
        let i = r.usize(items.len());
        let x = f.atom(&[1]);
        items[i] = f.pair(x, x);
    }
    f.list(&items)
}

fn c09_opcode(r: &mut Rng) -> Vec<u8> {
    match r.below(10) {
        0 => vec![r.u8()],
        1 | 2 => vec![r.u8(), r.u8()],
        3 => vec![0xff, 0xff, r.u8()],
        4 => vec![0xff, r.u8()],
        5 => {
            let n = r.range(3, 5) as usize;
            r.bytes(n)
        }
        6 => {
            let n = r.range(6, 8) as usize;
            r.bytes(n)
        }
        7 => vec![0, 0, r.u8(), r.u8()],
        8 => vec![r.u8() & 3, r.u8(), r.u8(), r.u8(), r.u8()],
        _ => vec![0, r.u8() & 0x0f, r.u8()],
    }
}

#[allow(clippy::too_many_arguments)]
fn log_c09(ctx: &mut Ctx, f: &Forest, opcode: &[u8], args: Id, flags: ClvmFlags, budget: u64, via: &str, case: u64) {
    let mut a = Allocator::new();
    let Ok(argn) = f.materialize_auto(&mut a, args) else { return };
    let Ok(opn) = a.new_atom(opcode) else { return };
    let r = match via {
        "op_unknown" => guarded(|| op_unknown(&mut a, opn, argn, budget, flags)),
        "chia" => {
            let d = ChiaDialect::new(flags);
            guarded(|| clvmr::dialect::Dialect::op(&d, &mut a, opn, argn, budget, clvmr::dialect::OperatorSet::Default))
        }
        _ => {
            let d = RuntimeDialect::new(crate::mon::c30::standard_table(flags), vec![1], vec![2], flags);
            guarded(|| clvmr::dialect::Dialect::op(&d, &mut a, opn, argn, budget, clvmr::dialect::OperatorSet::Default))
        }
    };
    let (res, node) = res_of(&a, r);
    ctx.eval();
    ctx.count(&format!("{via}_{}", res.variant()));
    let (items, tail) = crate::mon::ops::flat_args(f, args);
    let rec = json!({
        "case": case, "via": via, "opcode": hex::encode(opcode), "flags": flags.bits(), "budget": budget,
        "args": items.iter().map(|i| arg_json(f, *i)).collect::<Vec<_>>(),
        "tail": arg_json(f, tail),
        "res": match &res {
            Res::Ok { cost, .. } => json!({"ok": true, "cost": cost, "nil": node.is_some_and(|n| a.atom_len(n) == 0 && n.is_atom())}),
            Res::Err { variant, msg } => json!({"ok": false, "variant": variant, "msg": msg}),
            Res::Panic(m) => json!({"ok": false, "variant": "PANIC", "msg": m}),
        },
    });
    ctx.log_line(&rec);
}

/// is this opcode assigned by ChiaDialect under these flags (then it is not an unknown operator)
fn assigned_in_chia(op: &[u8], flags: ClvmFlags) -> bool {
    if op.len() == 4 {
        return op == [0x13, 0xd6, 0x1f, 0x00] || op == [0x1c, 0x3a, 0x8f, 0x00];
    }
    if op.len() != 1 || op[0] >= 0x80 || op[0] == 0 {
        return false;
    }
    match op[0] {
        3..=14 | 16..=27 | 29 | 30 | 32..=34 | 48..=61 => true,
        62 => flags.contains(ClvmFlags::ENABLE_KECCAK_OPS_OUTSIDE_GUARD),
        63 => flags.contains(ClvmFlags::ENABLE_SHA256_TREE),
        64 | 65 => flags.contains(ClvmFlags::ENABLE_SECP_OPS),
        _ => false,
    }
}

pub fn run_c09(ctx: &mut Ctx) {
    let miri = ctx.miri;
    let mut id = 0u64;
    // exhaustive 1- and 2-byte opcodes x a few argument shapes x both models (direct calls)
    let shapes: &[&str] = &["()", "(1)", "(0x0102 0x030405)", "((1 . 2))", "(1 (2) 3)", "(0x00 0x0000 ())"];
    let blocks = if miri { 2 } else { 257 };
    for blk in 0..blocks {
        let cid = DIRECTED | id;
        id += 1;
        if !ctx.want(cid) {
            continue;
        }
        let mut f = Forest::new();
        let args: Vec<Id> = shapes.iter().map(|s| crate::sexp::parse(&mut f, s, &[])).collect();
        let codes: Vec<Vec<u8>> = if blk == 0 {
            (0..=255u8).map(|b| vec![b]).collect()
        } else {
            let hi = (blk - 1) as u8;
            (0..=255u8).map(|lo| vec![hi, lo]).collect()
        };
        for code in codes {
            for a in &args {
                for fl in [ClvmFlags::empty(), ClvmFlags::NEW_COST_MODEL] {
                    log_c09(ctx, &f, &code, *a, fl, u64::MAX, "op_unknown", cid);
                }
            }
            ctx.count("exhaustive_opcodes");
        }
    }
    // directed overflow corner: base cost above 2^32, multiplier chosen so that the true
    // product is >= 2^64 (old model multiplies with wrap-around)
    if !miri {
        for jj in 0..48u64 {
            let cid = DIRECTED | id;
            id += 1;
            if !ctx.want(cid) {
                continue;
            }
            let mut f = Forest::new();
            let len = 800_000usize + (jj as usize % 12) * 100_000;
            let x = f.atom(&vec![0x11; len]);
            let args = f.list(&[x, x]);
            // mul-like base for two operands (old model): 92 + 885 + 6*(l0+l1) + l0*l1/128
            let l = len as u128;
            let base = 92 + 885 + 6 * (2 * l) + (l * l) / 128;
            // multipliers (+1) that make the true product cross a multiple of 2^64
            let jmax = ((base << 32) >> 64).max(1) as u64;
            let j = 1 + (jj / 12) % jmax;
            let m1 = ((1u128 << 64) * j as u128).div_ceil(base);
            if m1 > (1 << 32) {
                continue;
            }
            let m = (m1 - 1) as u32;
            let mut code = m.to_be_bytes().to_vec();
            code.push(0x80 | (jj as u8 & 0x3f));
            for fl in [ClvmFlags::empty(), ClvmFlags::NEW_COST_MODEL] {
                log_c09(ctx, &f, &code, args, fl, u64::MAX, "op_unknown", cid);
                log_c09(ctx, &f, &code, args, fl, 11_000_000_000, "chia", cid);
            }
            ctx.count("overflow_corner_cases");
        }
    }
    // products exactly at, one below and one above 2^32-1 (= 3*5*17*257*65537): base costs that divide it, with the
    // matching multiplier, neighbouring operand lengths and neighbouring multipliers
    if !miri {
        let cid = DIRECTED | id;
        id += 1;
        if ctx.want(cid) {
            // (multiplier, cost-function bits, operand lengths)
            let vectors: &[(u32, u8, &[usize])] = &[
                (0x33_0032, 0x40, &[91, 91]),  // add-like, old model: base 1285
                (0x33_0032, 0xc0, &[336]),     // concat-like: base 1285
                (0x0f_000e, 0xc0, &[1364]),    // concat-like: base 4369
                (0x11_0010, 0x40, &[814]),     // add-like, new model: base 3855
            ];
            for (mult, fnbits, lens) in vectors {
                for dm in [-1i64, 0, 1] {
                    for dl in [-1i64, 0, 1] {
                        let m = (*mult as i64 + dm) as u32;
                        let mut code = m.to_be_bytes()[1..].to_vec();
                        code.push(*fnbits);
                        let mut f = Forest::new();
                        let items: Vec<Id> = lens.iter().enumerate().map(|(k, l)| {
                            let len = if k == 0 { (*l as i64 + dl) as usize } else { *l };
                            f.atom(&vec![0x5a; len])
                        }).collect();
                        let args = f.list(&items);
                        for fl in [ClvmFlags::empty(), ClvmFlags::NEW_COST_MODEL] {
                            log_c09(ctx, &f, &code, args, fl, u64::MAX, "op_unknown", cid);
                            log_c09(ctx, &f, &code, args, fl, 11_000_000_000, "chia", cid);
                            log_c09(ctx, &f, &code, args, fl, 11_000_000_000, "runtime", cid);
                        }
                        ctx.count("product_boundary_cases");
                    }
                }
            }
        }
    }
    // Through the dialects: every opcode next to an assigned one is still an unknown operator. The whole last-byte
    // neighbourhood of the two 4-byte secp opcodes (and the adjacent multipliers), and every 1-byte opcode and every
    // 2-byte opcode with a zero first byte (non-minimal spellings of assigned opcodes), each with no arguments, atoms,
    // a valid signature triple and a corrupted one, lenient and strict.
    if !miri {
        let pts = crate::util::points();
        let mut groups: Vec<Vec<Vec<u8>>> = Vec::new();
        for prefix in [[0x13u8, 0xd6, 0x1f], [0x1c, 0x3a, 0x8f]] {
            for quarter in 0..4u32 {
                groups.push((quarter * 64..quarter * 64 + 64).map(|l| vec![prefix[0], prefix[1], prefix[2], l as u8]).collect());
            }
        }
        groups.push(
            [[0x13u8, 0xd6, 0x1e], [0x13, 0xd6, 0x20], [0x1c, 0x3a, 0x8e], [0x1c, 0x3a, 0x90], [0x13, 0xd7, 0x1f], [0x1c, 0x3b, 0x8f]]
                .iter()
                .flat_map(|p| [0x00u8, 0x01, 0x3f, 0x40, 0x80, 0xc0, 0xff].map(|l| vec![p[0], p[1], p[2], l]))
                .collect(),
        );
        groups.push((0..=255u8).map(|b| vec![b]).collect());
        groups.push((0..=255u8).map(|b| vec![0, b]).collect());
        groups.push((0..=255u8).map(|b| vec![0, 0, b]).collect());
        for g in groups {
            let cid = DIRECTED | id;
            id += 1;
            if !ctx.want(cid) {
                continue;
            }
            let mut f = Forest::new();
            let mut shapes: Vec<Id> = ["()", "(1)", "(0x0102 0x030405 7)"].iter().map(|s| crate::sexp::parse(&mut f, s, &[])).collect();
            for t in [&pts.k1[0], &pts.r1[0]] {
                let (pk, m, sg) = (f.atom(&t.0), f.atom(&t.1), f.atom(&t.2));
                shapes.push(f.list(&[pk, m, sg]));
                let mut bad = t.2.clone();
                bad[5] ^= 1;
                let sb = f.atom(&bad);
                shapes.push(f.list(&[pk, m, sb]));
            }
            for code in &g {
                for fl in [ClvmFlags::empty(), ClvmFlags::NEW_COST_MODEL, ClvmFlags::ENABLE_SECP_OPS | ClvmFlags::ENABLE_KECCAK_OPS_OUTSIDE_GUARD | ClvmFlags::ENABLE_SHA256_TREE,
                           ClvmFlags::NO_UNKNOWN_OPS, clvmr::chia_dialect::MEMPOOL_MODE] {
                    if assigned_in_chia(code, fl) || (code.len() == 1 && matches!(code[0], 1 | 2 | 36)) {
                        continue;
                    }
                    for a in &shapes {
                        log_c09(ctx, &f, code, *a, fl, 11_000_000_000, "chia", cid);
                        log_c09(ctx, &f, code, *a, fl, 11_000_000_000, "runtime", cid);
                    }
                }
                ctx.count("dialect_neighbourhood_opcodes");
            }
        }
    }
    let n = ctx.n(300_000, 20_000_000);
    let th = ctx.thorough();
    random_cases!(ctx, n, |r, i| {
        let mut f = Forest::new();
        let big = !miri && r.chance(1, if th { 60 } else { 400 });
        let args = c09_args(&mut r, &mut f, big);
        let code = c09_opcode(&mut r);
        let mut flags = crate::genr::gen_flags(&mut r, ClvmFlags::all());
        if r.chance(3, 4) {
            flags &= !ClvmFlags::NO_UNKNOWN_OPS;
        }
        let budget = match r.below(5) {
            0 => r.range(1, 3000),
            1 => r.range(1, 200_000),
            _ => u64::MAX,
        };
        let via = *r.pick(&["op_unknown", "op_unknown", "chia", "runtime"]);
        if via != "op_unknown" && assigned_in_chia(&code, flags) {
            continue;
        }
        if via == "op_unknown" && code.is_empty() {
            continue;
        }
        log_c09(ctx, &f, &code, args, flags, budget, via, i);
    });
    // the empty opcode (direct call only)
    {
        let cid = DIRECTED | id;
        if ctx.want(cid) {
            let mut f = Forest::new();
            let args = f.nil();
            log_c09(ctx, &f, &[], args, ClvmFlags::empty(), u64::MAX, "op_unknown", cid);
        }
    }
}

// ---------------------------------------------------------------- C10 / C32

fn flags_for_ops(r: &mut Rng) -> ClvmFlags {
    let mut fl = ClvmFlags::empty();
    if r.chance(1, 2) {
        fl |= ClvmFlags::NEW_COST_MODEL;
    }
    if r.chance(1, 3) {
        fl |= ClvmFlags::MALACHITE;
    }
    if r.chance(1, 8) {
        fl |= ClvmFlags::RELAXED_BLS;
    }
    if r.chance(1, 10) {
        fl |= ClvmFlags::ENABLE_GC | ClvmFlags::CANONICAL_INTS;
    }
    fl
}

fn log_op_call(ctx: &mut Ctx, r: &mut Rng, op: &OpDef, mode: SizeMode, case: u64) {
    let mut f = Forest::new();
    let args = gen_args(r, &mut f, op, mode);
    let flags = flags_for_ops(r);
    let budget = if mode == SizeMode::Big { 12_000_000_000 } else { u64::MAX };
    let repeat = r.chance(1, 4);
    crate::mon::ops::REPEAT_IN_SAME_ALLOCATOR.with(|x| x.set(repeat));
    let c = call(&f, op, args, flags, budget, r.u64(), if r.chance(1, 3) { 8 } else { 0 });
    crate::mon::ops::REPEAT_IN_SAME_ALLOCATOR.with(|x| x.set(false));
    let Some(c) = c else { return };
    ctx.eval();
    ctx.count(&format!("{}_{}", op.name, if c.out.res.is_ok() { "ok" } else { "err" }));
    if repeat {
        ctx.count("second_call_in_same_allocator");
    }
    if c.out.res.is_ok() && c.result.is_none() {
        return; // result too large to log
    }
    let mut rec = call_record(&f, op, args, flags, budget, &c, case);
    rec["second_call_in_same_allocator"] = json!(repeat);
    add_aux(&f, op, args, flags, &mut rec);
    ctx.log_line(&rec);
}

fn add_aux(f: &Forest, op: &OpDef, args: Id, flags: ClvmFlags, rec: &mut Value) {
    let (items, tail) = crate::mon::ops::flat_args(f, args);
    let proper = f.atom_bytes(tail) == Some(&[][..]);
    if op.name == "bls_verify" && proper && items.len() >= 3 && items.iter().all(|i| f.is_atom(*i)) {
        // auxiliary observations for the python oracle: the operator's own hash-to-curve of pk||msg
        let g2map = op_by_name("g2_map");
        let mut aux = Vec::new();
        for k in 0..(items.len() - 1) / 2 {
            let mut m = f.atom_bytes(items[1 + 2 * k]).unwrap().to_vec();
            m.extend_from_slice(f.atom_bytes(items[2 + 2 * k]).unwrap());
            let mut g = Forest::new();
            let a = g.atom(&m);
            let l = g.list(&[a]);
            let h = call(&g, &g2map, l, ClvmFlags::empty(), u64::MAX, 0, 0).and_then(|c| c.result).map(|b| hex::encode(&b[b.len().saturating_sub(96)..]));
            aux.push(h);
        }
        rec["aux_g2_map_of_pk_msg"] = json!(aux);
    }
    if (op.name == "g1_map" || op.name == "g2_map") && proper && items.len() == 1 && f.is_atom(items[0]) {
        // the same call with the default DST spelled out must give the same point
        let dst: &[u8] = if op.name == "g1_map" { b"BLS_SIG_BLS12381G1_XMD:SHA-256_SSWU_RO_AUG_" } else { b"BLS_SIG_BLS12381G2_XMD:SHA-256_SSWU_RO_AUG_" };
        let mut g = Forest::new();
        let m = g.atom(f.atom_bytes(items[0]).unwrap());
        let d = g.atom(dst);
        let l = g.list(&[m, d]);
        let twin = call(&g, op, l, flags, u64::MAX, 0, 0).and_then(|c| c.result).map(hex::encode);
        rec["explicit_default_dst_result"] = json!(twin);
    }
}

pub fn run_c10(ctx: &mut Ctx) {
    let miri = ctx.miri;
    let ops = all_ops();
    // operand lists of length 3 and 4 over values at the byte-length boundaries of inline atoms (carries in the middle
    // of a list), inline and forced to the heap, both cost models
    {
        let nblocks = 32;
        for blk in 0..nblocks {
            let cid = DIRECTED | blk as u64;
            if !ctx.want(cid) || (miri && blk != 0) {
                continue;
            }
            let mut r = ctx.rng(cid);
            for (li, l) in crate::genr::carry_lists(blk, nblocks).iter().enumerate() {
                if miri && li % 50 != 0 {
                    continue;
                }
                let mut f = Forest::new();
                let items: Vec<Id> = l.iter().map(|b| f.atom(b)).collect();
                let args = f.list(&items);
                for opname in ["+", "-", "*", "logand", "logior", "logxor"] {
                    let op = op_by_name(opname);
                    for fl in [ClvmFlags::empty(), ClvmFlags::NEW_COST_MODEL, ClvmFlags::MALACHITE | ClvmFlags::NEW_COST_MODEL] {
                        let vary = if (li + blk) % 3 == 0 { 16 } else { 0 };
                        let Some(c) = call(&f, &op, args, fl, u64::MAX, r.u64(), vary) else { continue };
                        ctx.eval();
                        ctx.count("carry_list_calls");
                        let rec = call_record(&f, &op, args, fl, u64::MAX, &c, cid);
                        ctx.log_line(&rec);
                    }
                }
            }
        }
    }
    let n = ctx.n(250_000, 20_000_000);
    let th = ctx.thorough();
    random_cases!(ctx, n, |r, i| {
        let op = r.pick(&ops);
        if op.slow && (miri || !r.chance(1, 6)) {
            continue;
        }
        let mode = match r.below(if th { 50 } else { 150 }) {
            0 if !miri && !matches!(op.name, "modpow" | "/" | "divmod" | "mod" | "*") => SizeMode::Big,
            1..=20 => SizeMode::Medium,
            _ => SizeMode::Small,
        };
        log_op_call(ctx, &mut r, op, mode, i);
    });
    // program level: (op (q . a) ...) -- interpreter overhead is a closed form
    let n2 = ctx.n(40_000, 2_000_000);
    random_cases!(ctx, n2, |r, i| {
        let op = r.pick(&ops);
        if op.slow {
            continue;
        }
        let mut f = Forest::new();
        let args = gen_args(&mut r, &mut f, op, SizeMode::Small);
        let (items, tail) = crate::mon::ops::flat_args(&f, args);
        if f.atom_bytes(tail) != Some(&[][..]) {
            continue;
        }
        let one = f.atom(&[1]);
        let quoted: Vec<Id> = items.iter().map(|x| f.pair(one, *x)).collect();
        let opc = f.atom(&[op.code as u8]);
        let l = f.list(&quoted);
        let prog = f.pair(opc, l);
        let env = f.nil();
        let mut flags = flags_for_ops(&mut r) | ClvmFlags::ENABLE_KECCAK_OPS_OUTSIDE_GUARD | ClvmFlags::ENABLE_SHA256_TREE | ClvmFlags::ENABLE_SECP_OPS;
        flags &= !ClvmFlags::ENABLE_GC;
        let mut a = Allocator::new();
        let (Ok(p), Ok(e)) = (f.materialize_auto(&mut a, prog), f.materialize_auto(&mut a, env)) else { continue };
        let d = ChiaDialect::new(flags);
        let o = run_dialect(&mut a, &d, p, e, 0);
        ctx.eval();
        ctx.count("program_level_calls");
        let rec = json!({"case": i, "kind": "prog", "op": op.name, "flags": flags.bits(), "nargs": items.len(),
            "args": items.iter().map(|x| arg_json(&f, *x)).collect::<Vec<_>>(), "tail": arg_json(&f, tail),
            "res": result_json(&a, &o)});
        ctx.log_line(&rec);
    });
}

const CRYPTO_OPS: &[&str] = &[
    "sha256", "keccak256", "coinid", "point_add", "pubkey_for_exp", "g1_subtract", "g1_multiply", "g1_negate", "g2_add", "g2_subtract",
    "g2_multiply", "g2_negate", "g1_map", "g2_map", "bls_pairing_identity", "bls_verify", "secp256k1_verify", "secp256r1_verify",
];

pub fn run_c32(ctx: &mut Ctx) {
    let ops: Vec<OpDef> = CRYPTO_OPS.iter().map(|n| op_by_name(n)).collect();
    let n = ctx.n(24_000, 2_000_000);
    random_cases!(ctx, n, |r, i| {
        let op = r.pick(&ops);
        // pairings are expensive for the pure-python oracle: keep them rare
        if matches!(op.name, "bls_pairing_identity" | "bls_verify") && !r.chance(1, 40) {
            continue;
        }
        let mode = if r.chance(1, 10) { SizeMode::Medium } else { SizeMode::Small };
        log_op_call(ctx, &mut r, op, mode, i);
    });
    // valid signatures / pairings built through the operators themselves
    let n2 = ctx.n(400, 20_000);
    random_cases!(ctx, n2, |r, i| {
        let mut f = Forest::new();
        let sk = r.range(1, 1 << 50) as i128;
        let msg = gen_atom(&mut r, 60);
        let msg_id = f.atom(&msg);
        let sk_id = f.int(sk);
        let wrong = r.chance(1, 4);
        let text = if wrong {
            "(c (pubkey_for_exp (q . $sk)) (c (g2_multiply (g2_map (concat (pubkey_for_exp (q . $sk)) (q . $msg))) (q . $sk)) (c (q . $msg) (q . 1))))"
        } else {
            "(c (pubkey_for_exp (q . $sk)) (c (g2_multiply (g2_map (concat (pubkey_for_exp (q . $sk)) (q . $msg))) (q . $sk)) (c (q . $msg) ())))"
        };
        let prog = crate::sexp::parse(&mut f, text, &[("sk", sk_id), ("msg", msg_id)]);
        let env = f.nil();
        let mut a = Allocator::new();
        let (Ok(p), Ok(e)) = (f.materialize_auto(&mut a, prog), f.materialize_auto(&mut a, env)) else { continue };
        let d = ChiaDialect::new(ClvmFlags::empty());
        let o = run_dialect(&mut a, &d, p, e, 0);
        let Some(node) = o.node else { continue };
        // (pk sig msg . wrong?) -> call bls_verify(sig pk msg') directly
        let mut g = Forest::new();
        let t = g.import(&a, node);
        let (items, tail) = crate::mon::ops::flat_args(&g, t);
        if items.len() != 3 {
            continue;
        }
        let (pk, sig) = (items[0], items[1]);
        let m = if g.atom_bytes(tail) == Some(&[1u8][..]) {
            let mut mm = msg.clone();
            mm.push(0x42);
            g.atom(&mm)
        } else {
            items[2]
        };
        let args = g.list(&[sig, pk, m]);
        let op = op_by_name("bls_verify");
        let flags = flags_for_ops(&mut r);
        let Some(c) = call(&g, &op, args, flags, u64::MAX, r.u64(), 0) else { continue };
        ctx.eval();
        ctx.count(if c.out.res.is_ok() { "constructed_bls_verify_ok" } else { "constructed_bls_verify_err" });
        let mut rec = call_record(&g, &op, args, flags, u64::MAX, &c, i);
        add_aux(&g, &op, args, flags, &mut rec);
        ctx.log_line(&rec);
    });
}
