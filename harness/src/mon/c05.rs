//! C05 — fast paths and diagnostic build features are unobservable.
//! The same deterministic workload runs in the default, `no-fastpath` and
//! `counters+pre-eval` builds; each writes one canonical record per case and a
//! python comparer walks the three logs in lock-step.

use crate::genr::{boundary_ints, gen_flags, ProgCfg};
use crate::model::{Forest, Id, Repr};
use crate::mon::ops::{all_ops, call, gen_args, op_by_name, SizeMode};
use crate::outcome::{Outcome, Res};
use crate::random_cases;
use crate::report::{Ctx, DIRECTED};
use crate::util::{gen_program, materialize2};
use clvmr::allocator::{Allocator, NodePtr};
use clvmr::chia_dialect::{ChiaDialect, ClvmFlags};
use serde_json::{json, Value};

fn res_json(o: &Outcome) -> Value {
    match &o.res {
        Res::Ok { cost, hash } => json!({"ok": true, "cost": cost, "tree_hash": hex::encode(hash), "counts": o.counts.to_json()}),
        Res::Err { variant, msg } => json!({"ok": false, "variant": variant, "msg": msg, "counts": o.counts.to_json()}),
        Res::Panic(m) => json!({"ok": false, "variant": "PANIC", "msg": m}),
    }
}

/// run a program the way this build variant is meant to be exercised
fn run_variant(ctx: &mut Ctx, a: &mut Allocator, flags: ClvmFlags, p: NodePtr, e: NodePtr, budget: u64) -> Outcome {
    let d = ChiaDialect::new(flags);
    let budget = if budget == 0 { crate::outcome::UNLIMITED } else { budget };
    #[cfg(feature = "diag")]
    {
        use std::cell::Cell;
        use std::rc::Rc;
        // observe-only callbacks: count calls, never touch the allocator
        let pre = Rc::new(Cell::new(0u64));
        let post = Rc::new(Cell::new(0u64));
        let (pre2, post2) = (pre.clone(), post.clone());
        let cb: clvmr::run_program::PreEval = Box::new(move |_a, _prog, _env| {
            pre2.set(pre2.get() + 1);
            let post3 = post2.clone();
            let f: Box<clvmr::run_program::PostEval> = Box::new(move |_a, _n| post3.set(post3.get() + 1));
            Ok(Some(f))
        });
        let r = crate::outcome::guarded(|| clvmr::run_program::run_program_with_pre_eval(a, &d, p, e, budget, Some(cb)));
        let (res, node) = crate::outcome::res_of(a, r);
        ctx.add("pre_eval_callbacks", pre.get());
        ctx.add("post_eval_callbacks", post.get());
        return Outcome { res, node, counts: crate::outcome::counts(a), allocated: crate::outcome::allocated(a) };
    }
    #[cfg(not(feature = "diag"))]
    {
        let _ = &ctx;
        crate::outcome::run_dialect_raw(a, &d, p, e, budget)
    }
}

#[cfg(feature = "diag")]
fn counters_run(ctx: &mut Ctx, f: &Forest, prog: Id, env: Id, flags: ClvmFlags, budget: u64, plan: u64, vary: u64, expect: &Outcome) {
    // the counters entry point must give the same outcome as the pre-eval one
    let mut a = crate::outcome::allocator_for(flags);
    let Some((p, e)) = materialize2(f, &mut a, prog, env, plan, vary) else { return };
    let d = ChiaDialect::new(flags);
    let budget = if budget == 0 { crate::outcome::UNLIMITED } else { budget };
    let r = crate::outcome::guarded(|| clvmr::run_program::run_program_with_counters(&mut a, &d, p, e, budget));
    let Ok((counters, resp)) = r else {
        ctx.violation("run_program_with_counters-panicked", crate::util::prog_json(f, prog, env));
        return;
    };
    let (res, _) = crate::outcome::res_of(&a, Ok(resp));
    ctx.count("counters_runs");
    if res != expect.res || crate::outcome::counts(&a) != expect.counts {
        let mut j = crate::util::prog_json(f, prog, env);
        j["with_pre_eval"] = expect.res.to_json();
        j["with_counters"] = res.to_json();
        ctx.violation("counters-entry-point-differs", j);
    }
    if counters.atom_count as usize != crate::outcome::counts(&a).atoms {
        ctx.violation("counters-struct-wrong", json!({"atom_count": counters.atom_count, "allocator": crate::outcome::counts(&a).atoms}));
    }
}

fn log_prog(ctx: &mut Ctx, f: &Forest, prog: Id, env: Id, flags: ClvmFlags, budget: u64, plan: u64, vary: u64, case: u64, kind: &str) {
    let mut a = crate::outcome::allocator_for(flags);
    let Some((p, e)) = materialize2(f, &mut a, prog, env, plan, vary) else { return };
    let o = run_variant(ctx, &mut a, flags, p, e, budget);
    ctx.eval();
    #[cfg(feature = "diag")]
    counters_run(ctx, f, prog, env, flags, budget, plan, vary, &o);
    let key = crate::util::case_key(f, prog, env, &[&flags.bits().to_le_bytes()[..], &budget.to_le_bytes()[..], &plan.to_le_bytes()[..], &vary.to_le_bytes()[..]].concat());
    let mut rec = json!({"case": case, "kind": kind, "key": format!("{key:016x}"), "flags": flags.bits(), "budget": budget, "res": res_json(&o)});
    let (_, _, pl) = f.expanded_stats(prog);
    let (_, _, el) = f.expanded_stats(env);
    if pl + el < 3000 {
        rec["program"] = json!(hex::encode(f.classic_bytes(prog)));
        rec["env"] = json!(hex::encode(f.classic_bytes(env)));
        rec["plan"] = json!([plan, vary]);
    }
    ctx.log_line(&rec);
}

fn log_op(ctx: &mut Ctx, f: &Forest, opname: &str, args: Id, flags: ClvmFlags, budget: u64, plan: u64, vary: u64, case: u64) {
    let op = op_by_name(opname);
    let Some(c) = call(f, &op, args, flags, budget, plan, vary) else { return };
    ctx.eval();
    let key = crate::util::case_key(f, args, args, &[opname.as_bytes(), &flags.bits().to_le_bytes()[..], &budget.to_le_bytes()[..], &plan.to_le_bytes()[..], &vary.to_le_bytes()[..]].concat());
    let mut rec = json!({"case": case, "kind": "op", "op": opname, "key": format!("{key:016x}"), "flags": flags.bits(), "budget": budget, "res": res_json(&c.out)});
    let (_, _, al) = f.expanded_stats(args);
    if al < 2000 {
        rec["args"] = json!(hex::encode(f.classic_bytes(args)));
        rec["plan"] = json!([plan, vary]);
    }
    ctx.log_line(&rec);
}

pub fn run(ctx: &mut Ctx) {
    let miri = ctx.miri;
    let mut id = 0u64;
    // (a) arithmetic / comparison on every pair (and some triples) of machine-word boundary values
    let b = boundary_ints();
    let small: Vec<&Vec<u8>> = b.iter().filter(|x| x.len() <= 5).collect();
    for (oi, opname) in ["+", "-", "*", ">", "=", "logand", "sha256"].iter().enumerate() {
        for (i, x) in b.iter().enumerate() {
            let cid = DIRECTED | id;
            id += 1;
            if !ctx.want(cid) || (miri && i % 17 != 0) {
                continue;
            }
            let mut r = ctx.rng(cid);
            for (j, y) in b.iter().enumerate() {
                let mut f = Forest::new();
                let (xs, ys) = (f.atom(x), f.atom(y));
                let mut items = vec![xs, ys];
                if (i + j + oi) % 3 == 0 {
                    let z = f.atom(small[(i * 7 + j) % small.len()]);
                    items.push(z);
                }
                if (i + j) % 11 == 0 {
                    // a pair at a random position: the fast path must bail out identically
                    let one = f.atom(&[1]);
                    let p = f.pair(one, one);
                    let pos = r.usize(items.len() + 1);
                    items.insert(pos, p);
                }
                let args = f.list(&items);
                for fl in [ClvmFlags::empty(), ClvmFlags::NEW_COST_MODEL] {
                    let budget = if r.chance(1, 4) { r.range(100, 3000) } else { u64::MAX };
                    // all-inline operands (vary 0) and forced-heap operands (vary 16)
                    log_op(ctx, &f, opname, args, fl, budget, r.u64(), 0, cid);
                    log_op(ctx, &f, opname, args, fl, budget, r.u64(), 16, cid);
                }
            }
            ctx.count("boundary_rows");
        }
    }
    // (a') operand lists of length 3 and 4 over values at the byte-length boundaries of inline atoms: carries and
    // sign changes in the middle of a list (running totals whose size changes while the fast path is active)
    {
        let nblocks = 32;
        for blk in 0..nblocks {
            let cid = DIRECTED | id;
            id += 1;
            if !ctx.want(cid) || (miri && blk != 0) {
                continue;
            }
            let mut r = ctx.rng(cid);
            for (li, l) in crate::genr::carry_lists(blk, nblocks).iter().enumerate() {
                if miri && li % 50 != 0 {
                    continue;
                }
                let mut f = Forest::new();
                let items: Vec<Id> = l.iter().map(|b| f.atom(b)).collect();
                let args = f.list(&items);
                for opname in ["+", "-", "*", "logand", "logior", "logxor", "concat", "sha256"] {
                    for fl in [ClvmFlags::empty(), ClvmFlags::NEW_COST_MODEL] {
                        log_op(ctx, &f, opname, args, fl, u64::MAX, r.u64(), 0, cid);
                    }
                }
            }
            ctx.count("carry_list_blocks");
        }
    }
    // (b) sha256 (1 n) precomputed-hash fast path, every n in 0..48, 0/1/3 args
    for n in 0..48i128 {
        let cid = DIRECTED | id;
        id += 1;
        if !ctx.want(cid) {
            continue;
        }
        let mut r = ctx.rng(cid);
        let mut f = Forest::new();
        let one = f.atom(&[1]);
        let v = f.int(n);
        let v0 = f.atom(&[0, n as u8]);
        for items in [vec![one, v], vec![one, v0], vec![one], vec![v, one], vec![one, v, one], vec![]] {
            let args = f.list(&items);
            for fl in [ClvmFlags::empty(), ClvmFlags::NEW_COST_MODEL] {
                for vary in [0, 16] {
                    for budget in [u64::MAX, 300, 700] {
                        log_op(ctx, &f, "sha256", args, fl, budget, r.u64(), vary, cid);
                    }
                }
            }
        }
        ctx.count("sha256_precomputed_rows");
    }
    // (c) path lookups: every bit length, leading zero bytes, negative / non-canonical spellings,
    // inline and heap storage, over an environment in which every path of 40 steps exists
    {
        let mut f = Forest::new();
        let mut env = f.atom(&[0x2a]);
        for _ in 0..40 {
            env = f.pair(env, env);
        }
        let mut paths: Vec<Vec<u8>> = Vec::new();
        for bits in 0..=40u32 {
            for fill in [0u64, u64::MAX, 0x5555_5555_5555_5555] {
                let v: u64 = if bits == 0 { 0 } else { (1u64 << (bits - 1)) | (fill & ((1u64 << (bits - 1)) - 1)) };
                let mut bytes = v.to_be_bytes().to_vec();
                while bytes.len() > 1 && bytes[0] == 0 {
                    bytes.remove(0);
                }
                if v == 0 {
                    bytes = vec![];
                }
                paths.push(bytes.clone()); // raw magnitude (top bit may be set: a "negative" atom)
                let mut z = bytes.clone();
                z.insert(0, 0);
                paths.push(z.clone()); // canonical positive / one leading zero
                z.insert(0, 0);
                paths.push(z); // redundant leading zeros
            }
        }
        for (k, pth) in paths.iter().enumerate() {
            let cid = DIRECTED | id;
            id += 1;
            if !ctx.want(cid) {
                continue;
            }
            let mut g = f.clone();
            let prog = g.atom(pth);
            for fl in [ClvmFlags::empty(), ClvmFlags::NEW_COST_MODEL | ClvmFlags::ENABLE_GC] {
                for vary in [0u64, 16] {
                    for budget in [0u64, 60, 100, 200] {
                        log_prog(ctx, &g, prog, env, fl, budget, k as u64, vary, cid, "path");
                    }
                }
            }
            // and a shallow environment (path into atom)
            let shallow = g.atom(&[1]);
            let sh = g.pair(shallow, shallow);
            log_prog(ctx, &g, prog, sh, ClvmFlags::empty(), 0, k as u64, 16, cid, "path");
            ctx.count("path_rows");
        }
        let _ = Repr::Auto;
    }
    // (d) random programs and operator calls
    let n = ctx.n(300_000, 1_500_000);
    random_cases!(ctx, n, |r, i| {
        let flags = gen_flags(&mut r, ClvmFlags::all());
        let mut cfg = ProgCfg::full(flags);
        cfg.bls = !miri && r.chance(1, 12);
        cfg.secp = false;
        cfg.mutate_16 = 2;
        let mut f = Forest::new();
        let p = gen_program(&mut f, &mut r, cfg);
        let vary = if r.chance(1, 2) { 0 } else { r.range(1, 16) };
        let plan = r.u64();
        let budget = if r.chance(3, 4) { 0 } else { r.range(1, 100_000) };
        log_prog(ctx, &f, p.prog, p.env, flags, budget, plan, vary, i, "prog");
    });
    let ops = all_ops();
    let n2 = ctx.n(500_000, 4_000_000);
    random_cases!(ctx, n2, |r, i| {
        let op = r.pick(&ops);
        if op.slow && (miri || !r.chance(1, 8)) {
            continue;
        }
        let mut f = Forest::new();
        let mode = if r.chance(1, 12) { SizeMode::Medium } else { SizeMode::Small };
        let args = gen_args(&mut r, &mut f, op, mode);
        let flags = gen_flags(&mut r, ClvmFlags::all());
        let budget = if r.chance(3, 4) { u64::MAX } else { r.range(1, 20_000) };
        let vary = if r.chance(1, 2) { 0 } else { r.range(1, 16) };
        log_op(ctx, &f, op.name, args, flags, budget, r.u64(), vary, i);
    });
}
