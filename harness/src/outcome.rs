//! Canonical outcome records for runs of the real interpreter / operators.

use crate::model::{Hash, node_tree_hash};
use clvmr::allocator::{Allocator, NodePtr};
use clvmr::chia_dialect::{ChiaDialect, ClvmFlags};
use clvmr::dialect::Dialect;
use clvmr::error::EvalErr;
use clvmr::reduction::{Reduction, Response};
use clvmr::run_program::run_program;
use serde_json::{Value, json};
use std::panic::{AssertUnwindSafe, catch_unwind};

#[derive(Clone, Debug, PartialEq, Eq)]
pub struct Counts {
    pub atoms: usize,
    pub pairs: usize,
    pub heap: usize,
}

pub fn counts(a: &Allocator) -> Counts {
    Counts {
        atoms: a.atom_count(),
        pairs: a.pair_count(),
        heap: a.heap_size(),
    }
}

pub fn allocated(a: &Allocator) -> Counts {
    Counts {
        atoms: a.allocated_atom_count(),
        pairs: a.allocated_pair_count(),
        heap: a.allocated_heap_size(),
    }
}

#[derive(Clone, Debug, PartialEq, Eq)]
pub enum Res {
    Ok { cost: u64, hash: Hash },
    Err { variant: String, msg: String },
    Panic(String),
}

#[derive(Clone, Debug)]
pub struct Outcome {
    pub res: Res,
    pub node: Option<NodePtr>,
    pub counts: Counts,
    pub allocated: Counts,
}

pub fn variant_name(e: &EvalErr) -> &'static str {
    match e {
        EvalErr::SerializationError => "SerializationError",
        EvalErr::SerializationBackreferenceError => "SerializationBackreferenceError",
        EvalErr::OutOfMemory => "OutOfMemory",
        EvalErr::PathIntoAtom => "PathIntoAtom",
        EvalErr::TooManyPairs => "TooManyPairs",
        EvalErr::TooManyAtoms => "TooManyAtoms",
        EvalErr::CostExceeded => "CostExceeded",
        EvalErr::UnknownSoftforkExtension => "UnknownSoftforkExtension",
        EvalErr::SoftforkCostMismatch => "SoftforkCostMismatch",
        EvalErr::InternalError(_, _) => "InternalError",
        EvalErr::Raise(_) => "Raise",
        EvalErr::InvalidNilTerminator(_) => "InvalidNilTerminator",
        EvalErr::DivisionByZero(_) => "DivisionByZero",
        EvalErr::ValueStackLimitReached(_) => "ValueStackLimitReached",
        EvalErr::EnvironmentStackLimitReached(_) => "EnvironmentStackLimitReached",
        EvalErr::ShiftTooLarge(_) => "ShiftTooLarge",
        EvalErr::Reserved(_) => "Reserved",
        EvalErr::Invalid(_) => "Invalid",
        EvalErr::Unimplemented(_) => "Unimplemented",
        EvalErr::InvalidOpArg(_, _) => "InvalidOpArg",
        EvalErr::InvalidAllocArg(_, _) => "InvalidAllocArg",
        EvalErr::BLSPairingIdentityFailed(_) => "BLSPairingIdentityFailed",
        EvalErr::BLSVerifyFailed(_) => "BLSVerifyFailed",
        EvalErr::Secp256Failed(_) => "Secp256Failed",
        EvalErr::SoftforkStackDepthExceeded => "SoftforkStackDepthExceeded",
    }
}

pub fn panic_msg(p: Box<dyn std::any::Any + Send>) -> String {
    if let Some(s) = p.downcast_ref::<&str>() {
        s.to_string()
    } else if let Some(s) = p.downcast_ref::<String>() {
        s.clone()
    } else {
        "<non-string panic>".to_string()
    }
}

pub fn res_of(a: &Allocator, r: std::thread::Result<Response>) -> (Res, Option<NodePtr>) {
    match r {
        Ok(Ok(Reduction(cost, node))) => (
            Res::Ok {
                cost,
                hash: node_tree_hash(a, node),
            },
            Some(node),
        ),
        Ok(Err(e)) => (
            Res::Err {
                variant: variant_name(&e).to_string(),
                msg: e.to_string(),
            },
            None,
        ),
        Err(p) => (Res::Panic(panic_msg(p)), None),
    }
}

/// run a program with a given dialect, catching panics
pub fn run_dialect<D: Dialect>(
    a: &mut Allocator,
    d: &D,
    prog: NodePtr,
    env: NodePtr,
    budget: u64,
) -> Outcome {
    // monitors say 0 for "unlimited"; random programs may loop forever, so the
    // harness substitutes a large finite budget. `run_dialect_raw` passes a true 0.
    let budget = if budget == 0 { UNLIMITED } else { budget };
    run_dialect_raw(a, d, prog, env, budget)
}

pub const UNLIMITED: u64 = 50_000_000;

pub fn run_dialect_raw<D: Dialect>(
    a: &mut Allocator,
    d: &D,
    prog: NodePtr,
    env: NodePtr,
    budget: u64,
) -> Outcome {
    let r = guarded(|| run_program(a, d, prog, env, budget));
    let (res, node) = res_of(a, r);
    Outcome {
        res,
        node,
        counts: counts(a),
        allocated: allocated(a),
    }
}

pub fn run_chia(
    a: &mut Allocator,
    flags: ClvmFlags,
    prog: NodePtr,
    env: NodePtr,
    budget: u64,
) -> Outcome {
    let d = ChiaDialect::new(flags);
    run_dialect(a, &d, prog, env, budget)
}

pub type OpFn = fn(&mut Allocator, NodePtr, u64, ClvmFlags) -> Response;

pub fn call_op(a: &mut Allocator, f: OpFn, args: NodePtr, budget: u64, flags: ClvmFlags) -> Outcome {
    let r = guarded(|| f(a, args, budget, flags));
    let (res, node) = res_of(a, r);
    Outcome {
        res,
        node,
        counts: counts(a),
        allocated: allocated(a),
    }
}

/// the allocator the Python wheel would use for these flags
pub fn allocator_for(flags: ClvmFlags) -> Allocator {
    if flags.contains(ClvmFlags::LIMIT_HEAP) {
        Allocator::new_limited(500_000_000)
    } else {
        Allocator::new()
    }
}

impl Res {
    pub fn is_ok(&self) -> bool {
        matches!(self, Res::Ok { .. })
    }
    pub fn cost(&self) -> Option<u64> {
        match self {
            Res::Ok { cost, .. } => Some(*cost),
            _ => None,
        }
    }
    pub fn variant(&self) -> &str {
        match self {
            Res::Ok { .. } => "Ok",
            Res::Err { variant, .. } => variant,
            Res::Panic(_) => "PANIC",
        }
    }
    pub fn to_json(&self) -> Value {
        match self {
            Res::Ok { cost, hash } => json!({"ok": true, "cost": cost, "tree_hash": hex::encode(hash)}),
            Res::Err { variant, msg } => json!({"ok": false, "variant": variant, "msg": msg}),
            Res::Panic(m) => json!({"ok": false, "variant": "PANIC", "msg": m}),
        }
    }
    /// same success value+cost, or same error variant (message ignored)
    pub fn same_kind(&self, o: &Res) -> bool {
        match (self, o) {
            (Res::Ok { .. }, Res::Ok { .. }) => self == o,
            (Res::Err { variant: a, .. }, Res::Err { variant: b, .. }) => a == b,
            _ => false,
        }
    }
}

impl Counts {
    pub fn to_json(&self) -> Value {
        json!([self.atoms, self.pairs, self.heap])
    }
}

pub fn flags_json(f: ClvmFlags) -> Value {
    json!(format!("{:#x}", f.bits()))
}

pub const ALL_FLAGS: &[(ClvmFlags, &str)] = &[
    (ClvmFlags::CANONICAL_INTS, "CANONICAL_INTS"),
    (ClvmFlags::NO_UNKNOWN_OPS, "NO_UNKNOWN_OPS"),
    (ClvmFlags::LIMIT_HEAP, "LIMIT_HEAP"),
    (ClvmFlags::RELAXED_BLS, "RELAXED_BLS"),
    (ClvmFlags::LIMIT_SOFTFORK, "LIMIT_SOFTFORK"),
    (ClvmFlags::ENABLE_GC, "ENABLE_GC"),
    (ClvmFlags::LIMITS, "LIMITS"),
    (ClvmFlags::ENABLE_KECCAK_OPS_OUTSIDE_GUARD, "ENABLE_KECCAK_OPS_OUTSIDE_GUARD"),
    (ClvmFlags::DISABLE_OP, "DISABLE_OP"),
    (ClvmFlags::ENABLE_SHA256_TREE, "ENABLE_SHA256_TREE"),
    (ClvmFlags::ENABLE_SECP_OPS, "ENABLE_SECP_OPS"),
    (ClvmFlags::MALACHITE, "MALACHITE"),
    (ClvmFlags::NEW_COST_MODEL, "NEW_COST_MODEL"),
];

thread_local! {
    static GUARDED: std::cell::Cell<u32> = const { std::cell::Cell::new(0) };
}

/// run `f` under catch_unwind; panics inside are silent (they become outcomes)
pub fn guarded<T>(f: impl FnOnce() -> T) -> std::thread::Result<T> {
    GUARDED.with(|g| g.set(g.get() + 1));
    let r = catch_unwind(AssertUnwindSafe(f));
    GUARDED.with(|g| g.set(g.get() - 1));
    r
}

/// panic hook: silent inside `guarded`, loud (harness bug) elsewhere
pub fn quiet_panics() {
    let default = std::panic::take_hook();
    std::panic::set_hook(Box::new(move |info| {
        if GUARDED.with(|g| g.get()) == 0 {
            default(info);
        }
    }));
}
