//! helpers shared by monitors

use crate::genr::{Points, Prog, ProgCfg, ProgGen};
use crate::model::{Forest, Id, Repr};
use crate::rng::Rng;
use clvmr::allocator::{Allocator, NodePtr};
use clvmr::chia_dialect::{ChiaDialect, ClvmFlags};
use clvmr::reduction::Reduction;
use clvmr::run_program::run_program;
use std::sync::OnceLock;

static POINTS: OnceLock<Points> = OnceLock::new();

pub fn points() -> &'static Points {
    POINTS.get_or_init(crate::points::build_points)
}

/// cost of running (prog, env) with the real interpreter (used to build
/// softfork guards that declare their exact cost)
pub fn measure_cost(f: &Forest, prog: Id, env: Id, flags: ClvmFlags) -> Option<u64> {
    measure_in_ext(f, prog, env, flags, None)
}

/// ChiaDialect, except that operators evaluated outside any guard see the
/// operator set of softfork extension `ext` -- i.e. the program is measured
/// exactly as if it were the body of a guard for that extension.
struct MeasureDialect {
    inner: ChiaDialect,
    outer: clvmr::dialect::OperatorSet,
}

impl clvmr::dialect::Dialect for MeasureDialect {
    fn quote_kw(&self) -> u32 {
        self.inner.quote_kw()
    }
    fn apply_kw(&self) -> u32 {
        self.inner.apply_kw()
    }
    fn softfork_kw(&self) -> u32 {
        self.inner.softfork_kw()
    }
    fn softfork_extension(&self, ext: u32) -> clvmr::dialect::OperatorSet {
        self.inner.softfork_extension(ext)
    }
    fn flags(&self) -> ClvmFlags {
        self.inner.flags()
    }
    fn gc_candidate(&self, a: &Allocator, op: NodePtr) -> bool {
        self.inner.gc_candidate(a, op)
    }
    fn op(
        &self,
        a: &mut Allocator,
        o: NodePtr,
        args: NodePtr,
        max_cost: u64,
        ext: clvmr::dialect::OperatorSet,
    ) -> clvmr::reduction::Response {
        let e = if ext == clvmr::dialect::OperatorSet::Default { self.outer } else { ext };
        self.inner.op(a, o, args, max_cost, e)
    }
    fn allow_unknown_ops(&self) -> bool {
        self.inner.allow_unknown_ops()
    }
}

pub fn measure_in_ext(f: &Forest, prog: Id, env: Id, flags: ClvmFlags, ext: Option<u32>) -> Option<u64> {
    use clvmr::dialect::Dialect;
    let mut a = Allocator::new();
    let p = f.materialize_auto(&mut a, prog).ok()?;
    let e = f.materialize_auto(&mut a, env).ok()?;
    let inner = ChiaDialect::new(flags & !ClvmFlags::LIMIT_SOFTFORK & !ClvmFlags::ENABLE_GC);
    let outer = match ext {
        Some(x) => inner.softfork_extension(x),
        None => clvmr::dialect::OperatorSet::Default,
    };
    let d = MeasureDialect { inner, outer };
    match crate::outcome::guarded(|| run_program(&mut a, &d, p, e, 50_000_000)) {
        Ok(Ok(Reduction(c, _))) => Some(c),
        _ => None,
    }
}

/// generate a typed program (see gen::ProgGen)
pub fn gen_program(f: &mut Forest, r: &mut Rng, cfg: ProgCfg) -> Prog {
    let base = cfg.flags & !ClvmFlags::ENABLE_GC;
    let measure = move |f: &Forest, p: Id, e: Id, ext: Option<u32>| measure_in_ext(f, p, e, base, ext);
    let mut g = ProgGen::new(f, r, cfg, &measure, points());
    g.program()
}

/// deterministic representation plan: each atom gets a storage form chosen
/// from a seeded stream (same seed => same plan)
pub fn repr_plan(seed: u64, vary_16: u64) -> impl FnMut(Id, &[u8]) -> Repr {
    let mut r = Rng::new(seed);
    move |_id, b| {
        if b.len() > (1 << 20) {
            return Repr::Auto;
        }
        if r.below(16) < vary_16 {
            *r.pick(&[Repr::Heap, Repr::View, Repr::Concat, Repr::Heap])
        } else {
            Repr::Auto
        }
    }
}

pub fn materialize2(
    f: &Forest,
    a: &mut Allocator,
    prog: Id,
    env: Id,
    plan_seed: u64,
    vary_16: u64,
) -> Option<(NodePtr, NodePtr)> {
    let mut plan = repr_plan(plan_seed, vary_16);
    let p = f.materialize(a, prog, &mut plan).ok()?;
    let e = f.materialize(a, env, &mut plan).ok()?;
    Some((p, e))
}

pub fn prog_json(f: &Forest, prog: Id, env: Id) -> serde_json::Value {
    let (_, _, plen) = f.expanded_stats(prog);
    let (_, _, elen) = f.expanded_stats(env);
    serde_json::json!({
        "program": if plen < 200_000 { hex::encode(f.classic_bytes(prog)) } else { format!("<{plen} bytes>") },
        "env": if elen < 200_000 { hex::encode(f.classic_bytes(env)) } else { format!("<{elen} bytes>") },
    })
}

use crate::outcome::{Outcome, allocator_for, run_chia};

/// run (prog, env) in a fresh allocator with the chosen atom representations
pub fn run_case(
    f: &Forest,
    prog: Id,
    env: Id,
    flags: ClvmFlags,
    budget: u64,
    plan_seed: u64,
    vary_16: u64,
) -> Option<Outcome> {
    let mut a = allocator_for(flags);
    let (p, e) = materialize2(f, &mut a, prog, env, plan_seed, vary_16)?;
    Some(run_chia(&mut a, flags, p, e, budget))
}

/// does any atom of the tree equal one of the given byte strings?
pub fn contains_atom(f: &Forest, root: Id, any_of: &[&[u8]]) -> bool {
    for id in f.reachable(root) {
        if let Some(b) = f.atom_bytes(id)
            && any_of.contains(&b)
        {
            return true;
        }
    }
    false
}

pub fn case_key(f: &Forest, prog: Id, env: Id, extra: &[u8]) -> u64 {
    let hp = f.tree_hash(prog);
    let he = f.tree_hash(env);
    let h = crate::model::sha256(&[&hp, &he, extra]);
    u64::from_le_bytes(h[..8].try_into().unwrap())
}

/// events recorded by the verif hooks while `f` ran
pub fn with_events<T>(f: impl FnOnce() -> T) -> (T, Vec<clvmr::verif_hooks::Event>) {
    clvmr::verif_hooks::take_events();
    clvmr::verif_hooks::set_recording(true);
    let r = f();
    clvmr::verif_hooks::set_recording(false);
    (r, clvmr::verif_hooks::take_events())
}
