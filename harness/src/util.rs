//! helpers shared by monitors

use crate::genr::{Points, Prog, ProgCfg, ProgGen};
use crate::model::{Forest, Id, Repr};
use crate::rng::Rng;
use clvmr::allocator::{Allocator, NodePtr};
use clvmr::chia_dialect::{ChiaDialect, ClvmFlags};
use clvmr::reduction::Reduction;
use clvmr::run_program::run_program;
use std::sync::OnceLock;

static POINTS: OnceLock<Points> = OnceLock::new();

pub fn points() -> &'static Points {
    POINTS.get_or_init(crate::points::build_points)
}

/// cost of running (prog, env) with the real interpreter (used to build
/// softfork guards that declare their exact cost)
pub fn measure_cost(f: &Forest, prog: Id, env: Id, flags: ClvmFlags) -> Option<u64> {
    let mut a = Allocator::new();
    let p = f.materialize_auto(&mut a, prog).ok()?;
    let e = f.materialize_auto(&mut a, env).ok()?;
    let d = ChiaDialect::new(flags);
    match crate::outcome::guarded(|| run_program(&mut a, &d, p, e, 50_000_000)) {
        Ok(Ok(Reduction(c, _))) => Some(c),
        _ => None,
    }
}

/// generate a typed program (see gen::ProgGen)
pub fn gen_program(f: &mut Forest, r: &mut Rng, cfg: ProgCfg) -> Prog {
    let base = cfg.flags & !ClvmFlags::ENABLE_GC;
    let measure = move |f: &Forest, p: Id, e: Id, extra: ClvmFlags| measure_cost(f, p, e, base | extra);
    let mut g = ProgGen::new(f, r, cfg, &measure, points());
    g.program()
}

/// deterministic representation plan: each atom gets a storage form chosen
/// from a seeded stream (same seed => same plan)
pub fn repr_plan(seed: u64, vary_16: u64) -> impl FnMut(Id, &[u8]) -> Repr {
    let mut r = Rng::new(seed);
    move |_id, b| {
        if b.len() > (1 << 20) {
            return Repr::Auto;
        }
        if r.below(16) < vary_16 {
            *r.pick(&[Repr::Heap, Repr::View, Repr::Concat, Repr::Heap])
        } else {
            Repr::Auto
        }
    }
}

pub fn materialize2(
    f: &Forest,
    a: &mut Allocator,
    prog: Id,
    env: Id,
    plan_seed: u64,
    vary_16: u64,
) -> Option<(NodePtr, NodePtr)> {
    let mut plan = repr_plan(plan_seed, vary_16);
    let p = f.materialize(a, prog, &mut plan).ok()?;
    let e = f.materialize(a, env, &mut plan).ok()?;
    Some((p, e))
}

pub fn prog_json(f: &Forest, prog: Id, env: Id) -> serde_json::Value {
    let (_, _, plen) = f.expanded_stats(prog);
    let (_, _, elen) = f.expanded_stats(env);
    serde_json::json!({
        "program": if plen < 200_000 { hex::encode(f.classic_bytes(prog)) } else { format!("<{plen} bytes>") },
        "env": if elen < 200_000 { hex::encode(f.classic_bytes(env)) } else { format!("<{elen} bytes>") },
    })
}
