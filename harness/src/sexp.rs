//! Tiny s-expression reader for directed cases: integers, 0x-hex atoms,
//! "strings", `$name` placeholders, lists and dotted pairs.

use crate::model::{Forest, Id};

pub fn parse(f: &mut Forest, text: &str, vars: &[(&str, Id)]) -> Id {
    let toks = tokenize(text);
    let mut pos = 0;
    let r = parse_expr(f, &toks, &mut pos, vars);
    assert!(pos == toks.len(), "trailing tokens in {text}");
    r
}

fn tokenize(s: &str) -> Vec<String> {
    let mut out = Vec::new();
    let mut cur = String::new();
    let mut in_str = false;
    for ch in s.chars() {
        if in_str {
            cur.push(ch);
            if ch == '"' {
                out.push(std::mem::take(&mut cur));
                in_str = false;
            }
            continue;
        }
        match ch {
            '"' => {
                if !cur.is_empty() {
                    out.push(std::mem::take(&mut cur));
                }
                cur.push(ch);
                in_str = true;
            }
            '(' | ')' => {
                if !cur.is_empty() {
                    out.push(std::mem::take(&mut cur));
                }
                out.push(ch.to_string());
            }
            c if c.is_whitespace() => {
                if !cur.is_empty() {
                    out.push(std::mem::take(&mut cur));
                }
            }
            c => cur.push(c),
        }
    }
    if !cur.is_empty() {
        out.push(cur);
    }
    out
}

fn parse_expr(f: &mut Forest, t: &[String], pos: &mut usize, vars: &[(&str, Id)]) -> Id {
    let tok = t[*pos].clone();
    *pos += 1;
    if tok == "(" {
        let mut items = Vec::new();
        let mut tail = None;
        loop {
            if t[*pos] == ")" {
                *pos += 1;
                break;
            }
            if t[*pos] == "." {
                *pos += 1;
                tail = Some(parse_expr(f, t, pos, vars));
                assert!(t[*pos] == ")");
                *pos += 1;
                break;
            }
            items.push(parse_expr(f, t, pos, vars));
        }
        match tail {
            Some(x) => f.list_with_tail(&items, x),
            None => f.list(&items),
        }
    } else if let Some(name) = tok.strip_prefix('$') {
        vars.iter()
            .find(|(n, _)| *n == name)
            .unwrap_or_else(|| panic!("unknown var {name}"))
            .1
    } else if let Some(h) = tok.strip_prefix("0x") {
        let b = hex::decode(h).expect("hex");
        f.atom(&b)
    } else if tok.starts_with('"') {
        f.atom(&tok.as_bytes()[1..tok.len() - 1])
    } else if let Some(code) = keyword(&tok) {
        f.atom(&[code])
    } else {
        let v: i128 = tok.parse().unwrap_or_else(|_| panic!("bad token {tok}"));
        f.int(v)
    }
}

pub fn keyword(t: &str) -> Option<u8> {
    Some(match t {
        "q" => 1,
        "a" => 2,
        "i" => 3,
        "c" => 4,
        "f" => 5,
        "r" => 6,
        "l" => 7,
        "x" => 8,
        "=" => 9,
        ">s" => 10,
        "sha256" => 11,
        "substr" => 12,
        "strlen" => 13,
        "concat" => 14,
        "+" => 16,
        "-" => 17,
        "*" => 18,
        "/" => 19,
        "divmod" => 20,
        ">" => 21,
        "ash" => 22,
        "lsh" => 23,
        "logand" => 24,
        "logior" => 25,
        "logxor" => 26,
        "lognot" => 27,
        "point_add" => 29,
        "pubkey_for_exp" => 30,
        "not" => 32,
        "any" => 33,
        "all" => 34,
        "softfork" => 36,
        "coinid" => 48,
        "g1_subtract" => 49,
        "g1_multiply" => 50,
        "g1_negate" => 51,
        "g2_add" => 52,
        "g2_subtract" => 53,
        "g2_multiply" => 54,
        "g2_negate" => 55,
        "g1_map" => 56,
        "g2_map" => 57,
        "bls_pairing_identity" => 58,
        "bls_verify" => 59,
        "modpow" => 60,
        "%" => 61,
        "keccak256" => 62,
        "sha256tree" => 63,
        "secp256k1_verify" => 64,
        "secp256r1_verify" => 65,
        _ => return None,
    })
}
